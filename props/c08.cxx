// C08 — the ordered-set utility stays a valid red-black search tree for any insertions.
//
// Driven directly through harness classes derived from rb_tree::container<T> and
// rb_tree::chain<Node> (the core's members are protected, which is enough).  The
// simulated heap decides where nodes and address-keys live (so the heap policy decides
// the key order of the address comparators); allocation failure is injected into
// container::insert.
#include "../sim/scenario.hpp"
#include "../sim/heap.hpp"
#include <ipr/utility>
#include <cstdint>
#include <map>
#include <set>
#include <string>
#include <vector>
#include <cmath>
#include <algorithm>
#include <new>

namespace {
using namespace sim;
namespace rb = ipr::util::rb_tree;

enum Probe { P_owning, P_intrusive, P_cmp_int, P_cmp_addr, P_cmp_bytes, P_cmp_addrseq, P_dup_insert,
             P_height12, P_long_run, P_fault_cfg, P_fault_fired, P_absent_find, P_reuse, P_validations, P_cmp_wide, P_count };

enum OpCode { OpInsert = 0, OpFind = 1, OpNoise = 2 };

// ---------------------------------------------------------------------------------
// Generic validation of a tree given its root; Node exposes left()/right()/parent()/color.
// ---------------------------------------------------------------------------------
template<class Node>
struct Shape {
   bool ok = true;
   std::string why;
   long count = 0;
   int height = 0;
   std::vector<Node*> inorder;

   int walk(Node* x, Node* parent, int depth)
   {
      if (x == nullptr) return 1;               // nil leaves are black
      if (not ok) return 0;
      ++count;
      if (depth > height) height = depth;
      if (count > 50'000'000) { ok = false; why = "cycle suspected"; return 0; }
      if (x->parent() != parent) { ok = false; why = "parent link inconsistent"; return 0; }
      if (x->color == rb::Color::Red) {
         if ((x->left() and x->left()->color == rb::Color::Red) or (x->right() and x->right()->color == rb::Color::Red)) {
            ok = false; why = "red node with a red child"; return 0;
         }
      }
      int lh = walk(x->left(), x, depth + 1);
      inorder.push_back(x);
      int rh = walk(x->right(), x, depth + 1);
      if (not ok) return 0;
      if (lh != rh) { ok = false; why = "black height differs between subtrees"; return 0; }
      return lh + (x->color == rb::Color::Black ? 1 : 0);
   }

   void run(Node* root)
   {
      if (root != nullptr and root->color != rb::Color::Black) { ok = false; why = "root is not black"; return; }
      walk(root, nullptr, 1);
   }
};

// ---------------------------------------------------------------------------------
// Owning flavour
// ---------------------------------------------------------------------------------
template<typename T>
struct OwnTree : rb::container<T> {
   rb::node<T>* root_node() const { return this->root; }
   // The container owns and releases its nodes (how it obtains their storage is its own business).
};

struct IntCmp {
   int operator()(int a, int b) const { return a < b ? -1 : (b < a ? 1 : 0); }
};
// A three-way comparator that answers with a signed 64-bit *difference* (only the sign is meaningful); keys are
// spread so that differences exceed 2^31 and 2^32.  The tree code takes the comparator's result with `auto`.
struct WideCmp {
   std::int64_t operator()(std::int64_t a, std::int64_t b) const { return a - b; }
};
struct AddrCmp {
   int operator()(const void* a, const void* b) const { std::less<const void*> lt; return lt(a, b) ? -1 : (lt(b, a) ? 1 : 0); }
};
struct BytesCmp {
   int operator()(const std::string& a, const std::string& b) const { int c = a.compare(b); return c < 0 ? -1 : (c > 0 ? 1 : 0); }
};
struct AddrSeqCmp {
   int operator()(const std::vector<const void*>& a, const std::vector<const void*>& b) const
   {
      return ipr::util::lexicographical_compare()(a.begin(), a.end(), b.begin(), b.end(), AddrCmp());
   }
};

std::string ptr_str(const void* p) { char b[32]; std::snprintf(b, sizeof b, "%p", p); return b; }
std::string key_str(int k) { return std::to_string(k); }
std::string key_str(std::int64_t k) { return std::to_string((long long) k); }
std::string key_str(const void* k) { return ptr_str(k); }
std::string key_str(const std::string& k) { std::string s = "\""; for (unsigned char c : k) { char b[8]; std::snprintf(b, sizeof b, c >= 32 and c < 127 ? "%c" : "\\x%02x", c); s += b; } return s + "\""; }
std::string key_str(const std::vector<const void*>& k) { std::string s = "["; for (auto p : k) s += ptr_str(p) + " "; return s + "]"; }

struct KeyPool {
   // arena blocks whose addresses serve as keys
   std::vector<void*> blocks;
   ~KeyPool() { for (auto b : blocks) heap::noise_free(b); }
   const void* get(size_t i)
   {
      while (blocks.size() <= i) blocks.push_back(heap::noise_alloc(16 + 16 * (blocks.size() % 3)));
      return blocks[i];
   }
};

template<typename T, class Cmp, class MakeKey>
Verdict run_owning(const Plan& plan, RunCtx& ctx, MakeKey make_key, const char* cmpname)
{
   const std::string tag = std::string("C08/owning/") + cmpname;
   const int check_every = int(std::max<int64_t>(1, plan.get("check_every", 1)));
   // model: key -> element address, ordered with the same comparator
   struct Less { bool operator()(const T& a, const T& b) const { return Cmp()(a, b) < 0; } };
   std::map<T, const T*, Less> model;
   std::vector<void*> noise;
   OwnTree<T>* tree;
   { SutScope s; tree = new OwnTree<T>(); }
   struct Cleanup {
      OwnTree<T>*& t; std::vector<void*>& n;
      ~Cleanup() { { SutScope s; delete t; } for (auto p : n) heap::noise_free(p); }
   } cleanup { tree, noise };

   auto validate = [&](size_t step) -> Verdict {
      ctx.probe(P_validations);
      Shape<rb::node<T>> sh;
      sh.run(tree->root_node());
      if (not sh.ok) return Verdict::fail(tag + "/shape", "after step " + std::to_string(step) + ": " + sh.why);
      if (sh.count != tree->size() or size_t(sh.count) != model.size())
         return Verdict::fail(tag + "/size", "after step " + std::to_string(step) + ": nodes reachable=" + std::to_string(sh.count) +
                              " size()=" + std::to_string((long) tree->size()) + " model=" + std::to_string(model.size()));
      for (size_t i = 1; i < sh.inorder.size(); ++i) {
         // find() goes left when comp(data,key) < 0: in-order (left to right) must be strictly decreasing
         // in comparator terms, i.e. comp(later, earlier) < 0 ... derive from the convention directly:
         // every key in the left subtree of x satisfies comp(x.data, key) < 0.
         if (not (Cmp()(sh.inorder[i]->data, sh.inorder[i - 1]->data) < 0))
            return Verdict::fail(tag + "/order", "after step " + std::to_string(step) + ": in-order neighbours violate the search order: " +
                                 key_str(sh.inorder[i - 1]->data) + " then " + key_str(sh.inorder[i]->data));
      }
      const double bound = 2.0 * std::log2(double(sh.count) + 1.0);
      if (sh.count > 0 and double(sh.height) > bound + 1e-9)
         return Verdict::fail(tag + "/height", "height " + std::to_string(sh.height) + " exceeds 2*log2(n+1) for n=" + std::to_string(sh.count));
      if (sh.height >= 12) ctx.probe(P_height12);
      // every model key is found and is the same element as before
      for (auto& kv : model) {
         const T* e = tree->find(kv.first, Cmp());
         if (e == nullptr) return Verdict::fail(tag + "/lost-key", "after step " + std::to_string(step) + ": key " + key_str(kv.first) + " inserted earlier is not found");
         if (e != kv.second) return Verdict::fail(tag + "/element-moved", "after step " + std::to_string(step) + ": key " + key_str(kv.first) + " found at " + ptr_str(e) + " but was at " + ptr_str(kv.second));
      }
      return Verdict::ok();
   };

   size_t step = 0;
   for (const Op& op : plan.ops) {
      ++step;
      ++ctx.steps;
      heap::begin_op(uint32_t(step));
      if (op.code == OpNoise) {
         if (op.a[0] % 2 == 0 or noise.empty()) noise.push_back(heap::noise_alloc(size_t(8 + (op.a[1] & 0xff))));
         else { size_t i = size_t(op.a[1]) % noise.size(); heap::noise_free(noise[i]); noise.erase(noise.begin() + long(i)); }
         continue;
      }
      T key = make_key(op.a[0]);
      if (op.code == OpFind) {
         const T* e;
         { SutScope s; e = tree->find(key, Cmp()); }
         auto it = model.find(key);
         ctx.event("find %s -> %s", key_str(key).c_str(), e ? "hit" : "miss");
         if (it == model.end()) {
            ctx.probe(P_absent_find);
            if (e != nullptr) return Verdict::fail(tag + "/phantom-key", "find(" + key_str(key) + ") returned an element although the key was never inserted");
         } else if (e != it->second)
            return Verdict::fail(tag + (e ? "/element-moved" : "/lost-key"), "find(" + key_str(key) + ") = " + ptr_str(e) + ", model says " + ptr_str(it->second));
         continue;
      }
      // insert
      ctx.relevant = true;
      const long before = tree->size();
      const T* e = nullptr;
      bool threw = false;
      if (op.fault > 0) { ctx.probe(P_fault_cfg); heap::arm_fault(uint32_t(op.fault)); }
      try {
         SutScope s;
         e = tree->insert(key, Cmp());
      }
      catch (const std::bad_alloc&) {
         threw = true;
      }
      heap::arm_fault(0);
      if (threw) {
         if (not heap::fault_fired()) {
            if (heap::exhausted()) return Verdict::skip("arena exhausted");
            return Verdict::fail(tag + "/spurious-bad_alloc", "insert threw bad_alloc without an injected fault");
         }
         ctx.probe(P_fault_fired);
         ctx.event("insert %s -> bad_alloc (injected)", key_str(key).c_str());
         // F-alloc oracle: the tree is unchanged and valid
         if (tree->size() != before)
            return Verdict::fail(tag + "/fault-changed-size", "insert failed with bad_alloc but size() went from " + std::to_string(before) + " to " + std::to_string((long) tree->size()));
         if (Verdict v = validate(step); not v) { v.cls += "-after-fault"; return v; }
         continue;
      }
      auto it = model.find(key);
      ctx.event("insert %s -> %s size=%ld", key_str(key).c_str(), it == model.end() ? "new" : "existing", (long) tree->size());
      if (e == nullptr) return Verdict::fail(tag + "/null-insert", "insert returned null");
      if (it != model.end()) {
         ctx.probe(P_dup_insert);
         if (e != it->second) return Verdict::fail(tag + "/dup-new-element", "inserting equal key " + key_str(key) + " returned " + ptr_str(e) + " instead of the existing element " + ptr_str(it->second));
         if (tree->size() != before) return Verdict::fail(tag + "/dup-grew", "inserting an equal key changed size() from " + std::to_string(before) + " to " + std::to_string((long) tree->size()));
      } else {
         if (tree->size() != before + 1) return Verdict::fail(tag + "/size", "inserting a new key changed size() from " + std::to_string(before) + " to " + std::to_string((long) tree->size()));
         if (not (Cmp()(*e, key) == 0)) return Verdict::fail(tag + "/wrong-element", "insert returned an element that does not compare equal to the key");
         for (auto& kv : model) if (kv.second == e) return Verdict::fail(tag + "/aliased-element", "new key " + key_str(key) + " shares its element with " + key_str(kv.first));
         model.emplace(key, e);
      }
      if (step % size_t(check_every) == 0)
         if (Verdict v = validate(step); not v) return v;
   }
   if (Verdict v = validate(step); not v) return v;
   // absent keys are not found (probe a few keys around the inserted ones)
   for (int64_t k = -2; k < 6; ++k) {
      T key = make_key(1000003 + k);
      if (model.find(key) == model.end()) {
         const T* e = tree->find(key, Cmp());
         ctx.probe(P_absent_find);
         if (e != nullptr) return Verdict::fail(tag + "/phantom-key", "find of a never-inserted key returned an element");
      }
   }
   ctx.probe(P_reuse, heap::stats().reused);
   return Verdict::ok();
}

// ---------------------------------------------------------------------------------
// Intrusive flavour (distinct keys only; its behaviour on duplicates is not stated)
// ---------------------------------------------------------------------------------
struct INode : rb::link<INode> {
   long key = 0;
   const void* akey = nullptr;
};
struct IChain : rb::chain<INode> {
   INode* root_node() const { return this->root; }
};
struct ICmpInt {
   int operator()(const INode& a, const INode& b) const { return a.key < b.key ? -1 : (b.key < a.key ? 1 : 0); }
   int operator()(const INode& a, long k) const { return a.key < k ? -1 : (k < a.key ? 1 : 0); }
};
struct ICmpAddr {
   int operator()(const INode& a, const INode& b) const { return AddrCmp()(&a, &b); }
   int operator()(const INode& a, const void* k) const { return AddrCmp()(&a, k); }
};

Verdict run_intrusive(const Plan& plan, RunCtx& ctx, bool by_address)
{
   const std::string tag = std::string("C08/intrusive/") + (by_address ? "addr" : "int");
   const int check_every = int(std::max<int64_t>(1, plan.get("check_every", 1)));
   IChain* chain;
   { SutScope s; chain = new IChain(); }
   std::vector<INode*> nodes;
   std::vector<void*> noise;
   std::map<long, INode*> by_key;
   struct Cleanup {
      IChain*& c; std::vector<INode*>& n; std::vector<void*>& z;
      ~Cleanup() { SutScope s; for (auto p : n) delete p; delete c; for (auto p : z) ::operator delete(p); }
   } cleanup { chain, nodes, noise };

   auto cmp_nodes = [&](const INode& a, const INode& b) { return by_address ? ICmpAddr()(a, b) : ICmpInt()(a, b); };
   auto validate = [&](size_t step) -> Verdict {
      ctx.probe(P_validations);
      Shape<INode> sh;
      sh.run(chain->root_node());
      if (not sh.ok) return Verdict::fail(tag + "/shape", "after step " + std::to_string(step) + ": " + sh.why);
      if (sh.count != chain->size() or size_t(sh.count) != nodes.size())
         return Verdict::fail(tag + "/size", "after step " + std::to_string(step) + ": reachable=" + std::to_string(sh.count) + " size()=" + std::to_string((long) chain->size()) + " model=" + std::to_string(nodes.size()));
      for (size_t i = 1; i < sh.inorder.size(); ++i)
         if (not (cmp_nodes(*sh.inorder[i], *sh.inorder[i - 1]) < 0))
            return Verdict::fail(tag + "/order", "after step " + std::to_string(step) + ": in-order neighbours violate the search order");
      const double bound = 2.0 * std::log2(double(sh.count) + 1.0);
      if (sh.count > 0 and double(sh.height) > bound + 1e-9)
         return Verdict::fail(tag + "/height", "height " + std::to_string(sh.height) + " exceeds 2*log2(n+1) for n=" + std::to_string(sh.count));
      if (sh.height >= 12) ctx.probe(P_height12);
      for (INode* n : nodes) {
         INode* f = by_address ? chain->find(static_cast<const void*>(n), ICmpAddr()) : chain->find(n->key, ICmpInt());
         if (f != n) return Verdict::fail(tag + (f ? "/element-moved" : "/lost-key"), "after step " + std::to_string(step) + ": node with key " + std::to_string(n->key) + " not found as itself");
      }
      return Verdict::ok();
   };

   size_t step = 0;
   for (const Op& op : plan.ops) {
      ++step;
      ++ctx.steps;
      heap::begin_op(uint32_t(step));
      if (op.code == OpNoise) {
         if (op.a[0] % 2 == 0 or noise.empty()) noise.push_back(heap::noise_alloc(size_t(8 + (op.a[1] & 0xff))));
         else { size_t i = size_t(op.a[1]) % noise.size(); heap::noise_free(noise[i]); noise.erase(noise.begin() + long(i)); }
         continue;
      }
      const long key = long(op.a[0]);
      if (op.code == OpFind) {
         if (by_address) continue;
         INode* f = chain->find(key, ICmpInt());
         auto it = by_key.find(key);
         ctx.event("ifind %ld -> %s", key, f ? "hit" : "miss");
         if (it == by_key.end()) { ctx.probe(P_absent_find); if (f) return Verdict::fail(tag + "/phantom-key", "find of never-inserted key " + std::to_string(key) + " returned a node"); }
         else if (f != it->second) return Verdict::fail(tag + (f ? "/element-moved" : "/lost-key"), "find(" + std::to_string(key) + ") did not return the inserted node");
         continue;
      }
      if (not by_address and by_key.count(key)) continue;   // distinct keys only
      ctx.relevant = true;
      INode* n;
      { SutScope s; n = new INode(); }
      n->key = key;
      INode* r;
      { SutScope s; r = by_address ? chain->insert(n, ICmpAddr()) : chain->insert(n, ICmpInt()); }
      ctx.event("iinsert %ld at %p size=%ld", key, (void*) n, (long) chain->size());
      if (r != n) return Verdict::fail(tag + "/insert-result", "insert of a fresh node did not return that node");
      nodes.push_back(n);
      by_key[key] = n;
      if (step % size_t(check_every) == 0)
         if (Verdict v = validate(step); not v) return v;
   }
   if (Verdict v = validate(step); not v) return v;
   if (not by_address) {
      for (long k = 2000003; k < 2000008; ++k) {
         ctx.probe(P_absent_find);
         if (by_key.count(k) == 0 and chain->find(k, ICmpInt()) != nullptr) return Verdict::fail(tag + "/phantom-key", "find of a never-inserted key returned a node");
      }
   }
   ctx.probe(P_reuse, heap::stats().reused);
   return Verdict::ok();
}

// ---------------------------------------------------------------------------------
// Scenario
// ---------------------------------------------------------------------------------
constexpr size_t fact(size_t n) { return n <= 1 ? 1 : n * fact(n - 1); }
constexpr size_t perm_total = fact(1) + fact(2) + fact(3) + fact(4) + fact(5) + fact(6) + fact(7);   // 5913
constexpr size_t seq_total = 4 + 16 + 64 + 256 + 1024 + 4096;                                        // 5460

struct C08 : Scenario {
   const char* id() const override { return "C08"; }
   const char* title() const override { return "ordered-set utility stays a valid red-black search tree"; }
   const char* rule() const override
   {
      return "Insertion/lookup histories on rb_tree::container<T> (owning) and rb_tree::chain<Node> (intrusive) under four comparators "
             "(integers; addresses of arena blocks, so the heap policy decides key order; byte strings; sequences of addresses). "
             "Prologue (seed-independent batch, not a claim of exhaustiveness of the property): every permutation of 1..7 keys on both flavours and every sequence of length <=6 over 4 letters on the owning flavour. "
             "Seeded search: random-with-duplicates, sorted, reversed, zig-zag, organ-pipe, median-first and block patterns, short and long, "
             "with noise allocations interleaved and allocation failure injected into insert. Non-trivial = at least one insertion executed.";
   }
   std::vector<std::string> probe_names() const override
   {
      return { "owning", "intrusive", "cmp.int", "cmp.addr", "cmp.bytes", "cmp.addrseq", "dup_insert", "height>=12", "long_run",
               "fault.alloc_configured", "fault.alloc_fired_in_insert", "absent_key_lookups", "heap.reused_blocks", "validations", "cmp.wide_difference" };
   }
   std::vector<std::string> assumptions() const override
   {
      return { "comparators used are total orders (the property's precondition)",
               "intrusive flavour is fed distinct keys only (its behaviour on duplicates is not part of the statement)",
               "tree shape is read through classes derived from the protected core; node storage of owning trees is released by the harness" };
   }
   size_t prologue_count(int) const override { return 2 * perm_total + seq_total; }

   Plan prologue(size_t i, int) const override
   {
      Plan p;
      p.seed = 0xC08;
      p.set("policy", int64_t(i % 4));
      p.set("check_every", 1);
      if (i < 2 * perm_total) {
         const bool intrusive = i >= perm_total;
         size_t k = intrusive ? i - perm_total : i;
         size_t n = 1;
         while (k >= fact(n)) { k -= fact(n); ++n; }
         // k-th permutation of 0..n-1 (factorial number system)
         std::vector<int> items(n);
         for (size_t j = 0; j < n; ++j) items[j] = int(j);
         p.set("flavour", intrusive ? 1 : 0);
         p.set("cmp", 0);
         for (size_t j = n; j > 0; --j) {
            size_t f = fact(j - 1);
            size_t q = k / f;
            k %= f;
            Op op; op.code = OpInsert; op.a[0] = items[q];
            items.erase(items.begin() + long(q));
            p.ops.push_back(op);
         }
      } else {
         size_t k = i - 2 * perm_total;
         size_t len = 1, block = 4;
         while (k >= block) { k -= block; ++len; block *= 4; }
         p.set("flavour", 0);
         p.set("cmp", int64_t(len % 2 == 0 ? 0 : 2));
         for (size_t j = 0; j < len; ++j) { Op op; op.code = OpInsert; op.a[0] = int64_t(k % 4); k /= 4; p.ops.push_back(op); }
      }
      return p;
   }

   size_t search_count(int tier) const override { return tier == 0 ? 30000 : 600000; }

   Plan generate(uint64_t run_seed, int tier) const override
   {
      Rng r(run_seed);
      Plan p;
      p.seed = run_seed;
      p.set("policy", int64_t(r.below(4)));
      const bool intrusive = r.chance(1, 3);
      p.set("flavour", intrusive);
      p.set("cmp", int64_t(intrusive ? r.below(2) : r.below(5)));
      const bool long_run = r.chance(1, tier == 0 ? 750 : 3000);
      size_t n = long_run ? size_t(r.range(5000, tier == 0 ? 20000 : 100000)) : size_t(r.range(1, 90));
      p.set("check_every", long_run ? 64 : 1);
      p.set("long", long_run);
      const int pattern = int(r.below(8));
      const int64_t universe = int64_t(std::max<size_t>(2, r.chance(1, 2) ? n / 2 + 1 : n * 4));
      const bool faults = not intrusive and not long_run and r.chance(1, 4);
      int faults_left = faults ? 2 : 0;
      std::vector<int64_t> keys(n);
      for (size_t i = 0; i < n; ++i) {
         switch (pattern) {
         case 0: keys[i] = int64_t(r.below(uint64_t(universe))); break;                       // random with duplicates
         case 1: keys[i] = int64_t(i); break;                                                // sorted
         case 2: keys[i] = int64_t(n - i); break;                                            // reversed
         case 3: keys[i] = i % 2 ? int64_t(n + i) : int64_t(n) - int64_t(i); break;          // zig-zag
         case 4: keys[i] = i < n / 2 ? int64_t(2 * i) : int64_t(2 * (n - i) + 1); break;     // organ pipe
         case 5: keys[i] = 0; break;                                                         // filled below: median first
         case 6: keys[i] = int64_t((i / 8) * 97 % universe) * 8 + int64_t(7 - i % 8); break;  // blocks, reversed inside
         default: keys[i] = int64_t(r.below(uint64_t(universe))); break;
         }
      }
      if (pattern == 5) {
         // always the current median of the remaining interval (breadth-first over a balanced tree)
         std::vector<std::pair<int64_t, int64_t>> q { { 0, int64_t(n) } };
         size_t out = 0;
         for (size_t h = 0; h < q.size() and out < n; ++h) {
            auto [lo, hi] = q[h];
            if (lo >= hi) continue;
            int64_t mid = (lo + hi) / 2;
            keys[out++] = mid;
            q.push_back({ lo, mid });
            q.push_back({ mid + 1, hi });
         }
      }
      for (size_t i = 0; i < n; ++i) {
         if (not long_run and r.chance(1, 6)) { Op z; z.code = OpNoise; z.a[0] = int64_t(r.below(2)); z.a[1] = int64_t(r.below(200)); p.ops.push_back(z); }
         Op op; op.code = OpInsert; op.a[0] = keys[i];
         if (faults_left > 0 and r.chance(1, 10)) { op.fault = int(r.range(1, 2)); --faults_left; }
         p.ops.push_back(op);
         if (not long_run and r.chance(1, 5)) { Op f; f.code = OpFind; f.a[0] = r.chance(1, 2) ? keys[r.below(i + 1)] : int64_t(r.below(uint64_t(universe * 2))); p.ops.push_back(f); }
      }
      return p;
   }

   Verdict execute(const Plan& plan, RunCtx& ctx) const override
   {
      const bool intrusive = plan.get("flavour", 0) % 2 != 0;
      const int cmp = int(((plan.get("cmp", 0) % 5) + 5) % 5);
      if (plan.get("long", 0)) ctx.probe(P_long_run);
      if (intrusive) {
         ctx.probe(P_intrusive);
         ctx.probe(cmp % 2 ? P_cmp_addr : P_cmp_int);
         return run_intrusive(plan, ctx, cmp % 2 != 0);
      }
      ctx.probe(P_owning);
      switch (cmp) {
      case 0:
         ctx.probe(P_cmp_int);
         return run_owning<int, IntCmp>(plan, ctx, [](int64_t k) { return int(k); }, "int");
      case 1: {
         ctx.probe(P_cmp_addr);
         KeyPool pool;
         return run_owning<const void*, AddrCmp>(plan, ctx, [&](int64_t k) { return pool.get(size_t(uint64_t(k) % 4096)); }, "addr");
      }
      case 2:
         ctx.probe(P_cmp_bytes);
         return run_owning<std::string, BytesCmp>(plan, ctx, [](int64_t k) {
            // byte strings with shared prefixes, embedded NULs and different lengths
            SutScope s;
            uint64_t u = uint64_t(k);
            std::string w(size_t(u % 5), char('a' + (u / 5) % 3));
            w += char((u / 15) % 4 == 0 ? 0 : 'a' + (u / 15) % 4);
            w += std::to_string((unsigned long long) (u / 60));
            return w;
         }, "bytes");
      case 4:
         ctx.probe(P_cmp_wide);
         return run_owning<std::int64_t, WideCmp>(plan, ctx, [](int64_t k) {
            // neighbours a few units apart, a few billions apart and a few 2^33 apart
            const int64_t sel = k % 3;
            return sel == 0 ? k : (sel == 1 ? k * 3000000011LL : k * ((int64_t(1) << 33) + 12345));
         }, "wide");
      default: {
         ctx.probe(P_cmp_addrseq);
         KeyPool pool;
         return run_owning<std::vector<const void*>, AddrSeqCmp>(plan, ctx, [&](int64_t k) {
            SutScope s;
            uint64_t u = uint64_t(k);
            std::vector<const void*> v;
            size_t len = u % 4;
            for (size_t i = 0; i < len; ++i) { v.push_back(pool.get(size_t(u % 7))); u /= 7; }
            return v;
         }, "addrseq");
      }
      }
   }

   std::string describe(const Op& o) const override
   {
      const char* names[] = { "insert", "find", "noise" };
      std::string s = std::string(o.code >= 0 and o.code < 3 ? names[o.code] : "?") + "(" + std::to_string((long long) o.a[0]) + ")";
      if (o.fault) s += "!alloc#" + std::to_string(o.fault);
      return s;
   }
};

C08 c08;
Registrar reg(&c08);
}

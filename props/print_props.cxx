// C17 — printed text depends only on graph structure and printer options.
// C18 — printing terminates and leaves the stream and the printer as it found them.
#include "worldgen.hpp"
#include "../sim/stream.hpp"
#include <ipr/io>
#include <ipr/traversal>
#include <sstream>

namespace {
using namespace props;

enum Entry { EN_decl = 0, EN_stmt = 1, EN_type = 2, EN_expr = 3, EN_unit = 4, EN_count = 5 };
const char* const entry_names[] = { "xpr_decl", "xpr_stmt", "xpr_type", "xpr_expr", "unit" };

struct PrintResult {
   std::string text;
   enum Outcome { Returned, Refused, SinkThrew, OtherException, AllocFailed } outcome = Returned;
   std::string what;
   sim::StreamState before, after;
   int indent_after = 0;
   bool bad = false;
   std::string numbers;          // rendering of sentinel numbers through the same printer afterwards
   // the same thing printed once more through the same Printer after the sink was repaired (only when asked for)
   bool again_done = false;
   Outcome again = Returned;
   std::string again_what;
};

struct StreamCfg {
   uint64_t style = 0;
   long capacity = -1;
   bool throwing = false;
   bool exceptions = false;
   bool locations = false;
   bool reuse_after_failure = false;    // if the sink failed, repair it and print once more with the same Printer
   uint32_t alloc_fault = 0;            // the k-th allocation made on the library's behalf while printing fails (0: none)
};

// Print one thing through a fresh Printer on a simulated stream.
template<class F>
PrintResult print_with(const ipr::Lexicon& lex, const StreamCfg& cfg, F emit)
{
   PrintResult r;
   sim::SimStreambuf buf;
   buf.capacity = cfg.capacity;
   buf.throwing = cfg.throwing;
   std::ostream os(&buf);
   sim::apply_style(os, cfg.style);
   if (cfg.exceptions) os.exceptions(std::ios_base::badbit);
   r.before = sim::state_of(os);
   try {
      sim::SutScope s;
      ipr::Printer pp(lex, os);
      pp.print_locations = cfg.locations;
      try {
         if (cfg.alloc_fault != 0) sim::heap::arm_fault(cfg.alloc_fault);
         emit(pp);
         sim::heap::arm_fault(0);
         r.indent_after = pp.indent();
         // numbers written through the printer's public operators after the print: a leaked base shows here
         pp << ' ' << ipr::Mapping_level{ 255 } << ' ' << ipr::Decl_position{ 4095 };
      }
      catch (const std::logic_error& e) { sim::heap::arm_fault(0); r.outcome = PrintResult::Refused; sim::HarnessScope h; r.what = e.what(); }
      catch (const sim::SimStreamFailure&) { sim::heap::arm_fault(0); r.outcome = PrintResult::SinkThrew; }
      catch (const std::ios_base::failure&) { sim::heap::arm_fault(0); r.outcome = PrintResult::SinkThrew; }
      catch (const std::bad_alloc&) {
         sim::heap::arm_fault(0);
         if (cfg.alloc_fault == 0 or not sim::heap::fault_fired()) throw;
         r.outcome = PrintResult::AllocFailed;
      }
      r.after = sim::state_of(os);
      r.bad = os.bad();
      { sim::HarnessScope h; r.text = buf.data; }
      if (cfg.reuse_after_failure and (r.outcome == PrintResult::SinkThrew or r.bad)) {
         // the client repairs its stream and prints the same thing again with the Printer it already has
         { sim::HarnessScope h; buf.capacity = -1; buf.data.clear(); }
         os.clear();
         r.again_done = true;
         try { emit(pp); }
         catch (const std::logic_error& e) { r.again = PrintResult::Refused; sim::HarnessScope h; r.again_what = e.what(); }
         catch (const sim::SimStreamFailure&) { r.again = PrintResult::SinkThrew; }
         catch (const std::ios_base::failure&) { r.again = PrintResult::SinkThrew; }
      }
      return r;
   }
   catch (const sim::SimStreamFailure&) { r.outcome = PrintResult::SinkThrew; }
   catch (const std::ios_base::failure&) { r.outcome = PrintResult::SinkThrew; }
   catch (const std::exception& e) { r.outcome = PrintResult::OtherException; r.what = e.what(); }
   r.after = sim::state_of(os);
   r.bad = os.bad();
   r.text = buf.data;
   return r;
}

std::string outcome_tag(const PrintResult& r)
{
   switch (r.outcome) {
   case PrintResult::Returned: return "";
   case PrintResult::Refused: return "<refused:logic_error>";
   case PrintResult::SinkThrew: return "<sink threw>";
   case PrintResult::AllocFailed: return "<bad_alloc>";
   default: return "<exception " + r.what + ">";
   }
}

std::string show(const std::string& t, size_t max = 160)
{
   std::string s;
   for (size_t i = 0; i < t.size() and i < max; ++i) {
      unsigned char c = (unsigned char) t[i];
      char b[8];
      if (c == '\n') s += "\\n";
      else if (c < 32 or c >= 127) { std::snprintf(b, sizeof b, "\\x%02x", c); s += b; }
      else s += char(c);
   }
   if (t.size() > max) s += "...";
   return s;
}

// The printable fragment: opcodes whose results every printer entry point can digest (or refuse with logic_error).
std::vector<OpWeight> printable_table()
{
   return {
      { OP_new_unit, 2 }, { OP_get_string, 3 }, { OP_get_identifier_w, 10 }, { OP_get_operator_w, 2 }, { OP_get_conversion, 1 }, { OP_get_ctor_name, 1 }, { OP_get_dtor_name, 1 },
      { OP_get_suffix, 1 }, { OP_get_template_id, 1 }, { OP_get_literal_w, 8 }, { OP_get_symbol, 2 }, { OP_get_label, 1 }, { OP_get_this, 1 },
      { OP_get_pointer, 5 }, { OP_get_reference, 3 }, { OP_get_rvalue_reference, 2 }, { OP_get_array, 3 }, { OP_get_qualified, 4 }, { OP_get_function2, 4 }, { OP_get_function_eh, 2 },
      { OP_get_product_wh, 4 }, { OP_get_sum_wh, 1 }, { OP_get_forall, 3 }, { OP_get_ptr_to_member, 2 }, { OP_get_as_type_expr, 2 }, { OP_get_as_type_id, 2 },
      { OP_make_class, 4 }, { OP_make_union, 2 }, { OP_make_enum, 3 }, { OP_make_namespace, 3 },
      { OP_make_address, 2 }, { OP_make_complement, 1 }, { OP_make_deref, 2 }, { OP_make_sizeof, 1 }, { OP_make_args_cardinality, 1 }, { OP_make_typeid, 1 }, { OP_make_not, 2 },
      { OP_make_post_increment, 1 }, { OP_make_post_decrement, 1 }, { OP_make_pre_increment, 1 }, { OP_make_pre_decrement, 1 }, { OP_make_throw, 1 }, { OP_make_unary_minus, 2 },
      { OP_make_unary_plus, 1 }, { OP_make_noexcept, 1 }, { OP_make_array_delete, 1 }, { OP_make_delete, 1 },
      { OP_make_and, 2 }, { OP_make_array_ref, 2 }, { OP_make_arrow, 2 }, { OP_make_arrow_star, 1 }, { OP_make_assign, 3 }, { OP_make_bitand, 1 }, { OP_make_bitand_assign, 1 }, { OP_make_bitor, 1 },
      { OP_make_bitor_assign, 1 }, { OP_make_bitxor, 1 }, { OP_make_bitxor_assign, 1 }, { OP_make_comma, 1 }, { OP_make_div, 1 }, { OP_make_div_assign, 1 }, { OP_make_dot, 2 }, { OP_make_dot_star, 1 },
      { OP_make_equal, 2 }, { OP_make_greater, 1 }, { OP_make_greater_equal, 1 }, { OP_make_less, 2 }, { OP_make_less_equal, 1 }, { OP_make_lshift, 1 }, { OP_make_lshift_assign, 1 },
      { OP_make_member_init, 1 }, { OP_make_minus, 2 }, { OP_make_minus_assign, 1 }, { OP_make_modulo, 1 }, { OP_make_modulo_assign, 1 }, { OP_make_mul, 2 }, { OP_make_mul_assign, 1 },
      { OP_make_not_equal, 1 }, { OP_make_or, 1 }, { OP_make_plus, 3 }, { OP_make_plus_assign, 1 }, { OP_make_scope_ref, 2 }, { OP_make_rshift, 1 }, { OP_make_rshift_assign, 1 },
      { OP_make_cast, 1 }, { OP_make_const_cast, 1 }, { OP_make_dynamic_cast, 1 }, { OP_make_reinterpret_cast, 1 }, { OP_make_static_cast, 1 },
      { OP_make_phantom, 1 }, { OP_make_expr_list, 3 }, { OP_expr_list_push_back, 5 }, { OP_make_id_expr_name, 3 }, { OP_make_id_expr_decl, 3 }, { OP_make_enclosure, 3 }, { OP_make_construction, 2 },
      { OP_make_call, 3 }, { OP_make_new, 1 }, { OP_make_conditional, 2 }, { OP_make_mapping, 4 },
      { OP_make_break, 1 }, { OP_make_continue, 1 }, { OP_make_block, 5 }, { OP_make_ctor_body, 1 }, { OP_make_expr_stmt, 5 }, { OP_make_goto, 1 }, { OP_make_return, 3 }, { OP_make_do, 1 },
      { OP_make_if2, 2 }, { OP_make_if3, 2 }, { OP_make_switch, 1 }, { OP_make_labeled_stmt, 2 }, { OP_make_while, 2 }, { OP_make_for, 2 }, { OP_make_for_in, 1 }, { OP_block_add_stmt, 8 },
      { OP_block_new_handler, 2 }, { OP_handler_add_stmt, 2 },
      { OP_make_subregion, 1 }, { OP_make_alias, 3 }, { OP_make_var, 10 }, { OP_make_field, 4 }, { OP_make_bitfield, 2 }, { OP_make_typedecl, 5 }, { OP_make_fundecl, 5 }, { OP_make_primary_template, 2 },
      { OP_enum_add_member, 5 }, { OP_class_declare_base, 2 }, { OP_plist_add_member, 4 }, { OP_mapping_param, 4 },
      { OP_set_decl_fields, 14 }, { OP_set_stmt_fields, 6 }, { OP_set_loop_fields, 8 }, { OP_set_expr_fields, 3 }, { OP_set_udt_fields, 8 }, { OP_set_callable_fields, 4 },
      // complete constructs, assembled bottom-up: these make units print in full
      { OP_macro_var, 14 }, { OP_macro_function, 12 }, { OP_macro_class, 7 }, { OP_macro_template, 5 }, { OP_macro_stmt_tree, 6 },
   };
}

// Clean programs: declarations enter scopes only through the macro operations (which build them completely), statements
// enter blocks only through the statement-tree macro; the primitives left are names, types, expressions and setters.
std::vector<OpWeight> clean_table()
{
   std::vector<OpWeight> t;
   for (auto& w : printable_table()) {
      switch (w.code) {
      case OP_make_class: case OP_make_union: case OP_make_enum: case OP_make_namespace:
      case OP_make_alias: case OP_make_var: case OP_make_field: case OP_make_bitfield: case OP_make_typedecl: case OP_make_fundecl: case OP_make_primary_template:
      case OP_block_add_stmt: case OP_block_new_handler: case OP_handler_add_stmt: case OP_make_subregion:
      case OP_make_do: case OP_make_while: case OP_make_switch: case OP_make_for: case OP_make_for_in: case OP_set_loop_fields:
      case OP_plist_add_member: case OP_mapping_param: case OP_make_mapping: case OP_set_callable_fields:
         continue;
      default:
         t.push_back(w);
      }
   }
   for (auto& w : t) if (w.code >= OP_macro_var) w.weight *= 3;
   return t;
}

// ------------------------------------------------------------------------------ C17
// prints whose unfolded size exceeds this many nodes are left out (their text is exponential in the number of operations)
constexpr double unfolded_limit = 200000;

enum P17 { Q_ops, Q_units_printed, Q_bytes, Q_refused_prints, Q_locations_seen, Q_located_stmts, Q_policy_pairs_diff, Q_noise_allocs, Q_unrelated_nodes,
           Q_second_print_eq, Q_digest_checks, Q_nodes, Q_nodes_printed, Q_nonempty_texts, Q_reuse, Q_too_large, Q_print_faults_cfg, Q_print_faults_fired, Q_count };

struct C17 : Scenario {
   const char* id() const override { return "C17"; }
   const char* title() const override { return "printed text depends only on graph structure and printer options"; }
   const char* rule() const override
   {
      return "A program over the printable fragment (variables, fields, bit-fields, aliases, type declarations with class/union/enum/namespace bodies, function declarations with mapping bodies, templates; the type constructors; the classic expressions; all statements; "
             "setters for initializers, names, locations, loop parts) is executed twice: in Lexicon L1 (sub-arena 0, heap policy p1) and, interleaved operation by operation under the scheduler, in L2 (sub-arena 1, a different policy p2) together with noise allocations "
             "and unrelated constructions in L2 (which change addresses and the shapes of L2's unification trees). Then every unit and a sample of declarations, statements, types and expressions are printed with fresh printers, with print_locations off and on, "
             "on simulated streams. Oracle: L1 and L2 texts are byte-identical per option setting (or both refuse with logic_error at the same byte); printing again with a fresh printer reproduces the text; the address-independent digest of the "
             "observable graph is the same in L1 and L2 and unchanged by printing; statements are given unique large sentinel locations whose decimal rendering occurs in the output iff print_locations is on. Non-trivial = at least one non-empty text compared.";
   }
   std::vector<std::string> probe_names() const override
   {
      return { "ops", "units_printed", "bytes_compared", "prints_refused_logic_error", "sentinel_locations_found", "located_statements", "policy_pairs_different", "noise_allocations_in_L2",
               "unrelated_nodes_in_L2", "second_print_comparisons", "graph_digest_checks", "modelled_objects", "nodes_printed", "nonempty_texts_compared", "heap.reused_blocks",
               "opt.prints_left_out_unfolded_size_over_limit", "fault.alloc_during_print_configured", "fault.alloc_during_print_fired" };
   }
   std::vector<std::string> assumptions() const override
   {
      return { "both executions apply the same operation list in the same order; they differ in addresses (sub-arena, placement policy), in interleaved noise and in unrelated constructions",
               "the harness only builds acyclic print graphs (links go to older nodes; bodies printed in place are sealed leaf bodies) — see DESIGN.md",
               "kinds that the printer cannot digest without unbounded recursion (known finding, C18) are not part of the printable fragment",
               "a print whose unfolded size (shared operands counted once per use, words by their length; estimated from the model) exceeds the limit is left out: its text is exponential in the number of operations" };
   }
   size_t prologue_count(int) const override { return 4; }
   Plan prologue(size_t i, int) const override
   {
      // a fixed, fairly complete program: every printable opcode three times
      Plan p;
      p.seed = 0xC1700 + i;
      p.set("policy", int64_t(i % 4));
      p.set("policy2", int64_t((i + 1 + i / 2) % 4));
      p.set("noise", 3);
      auto tab = printable_table();
      for (int pass = 0; pass < 3; ++pass)
         for (auto& w : tab) {
            Op o; o.code = w.code;
            for (int k = 0; k < 6; ++k) o.a[k] = int64_t(1 + i + size_t(pass) * 5 + size_t(2 * k) + size_t(w.code % 7));
            p.ops.push_back(o);
         }
      return p;
   }
   size_t search_count(int tier) const override { return tier == 0 ? 3000 : 150000; }
   Plan generate(uint64_t run_seed, int) const override
   {
      Rng r(run_seed);
      const size_t n = size_t(r.range(30, 260));
      const bool clean = r.chance(2, 3);
      Plan p = gen_world_plan(r, clean ? clean_table() : printable_table(), n, int(r.range(3, 24)), 0);
      p.seed = run_seed;
      p.set("clean", clean);
      p.set("policy2", int64_t(r.below(4)));
      p.set("noise", int64_t(r.below(6)));
      p.set("style", int64_t(r.below(8)));
      // one run in four: before anything is compared, L1 prints its units with an allocation failing in the middle
      if (r.chance(1, 4)) p.set("print_fault", int64_t(r.range(1, 8)));
      return p;
   }

   static void unrelated(World& w, Rng& r, RunCtx& ctx)
   {
      // constructions in L2 that the program does not know about: they move addresses and rebalance L2's trees
      sim::heap::set_owner(w.opt.owner);
      sim::SutScope s;
      impl::Lexicon& lex = *w.lex;
      std::u8string name = u8"noise_";
      name += char8_t('a' + r.below(26));
      name += char8_t('a' + r.below(26));
      const ipr::Identifier& id = lex.get_identifier(name);
      const ipr::Type& t = lex.get_pointer(lex.get_qualified(lex.const_qualifier(), r.chance(1, 2) ? lex.int_type() : lex.char_type()));
      lex.get_reference(lex.get_pointer(t));
      lex.make_literal(lex.int_type(), name);
      lex.get_symbol(id, t);
      impl::Warehouse<ipr::Type> wh;
      wh.push_back(t);
      wh.push_back(lex.long_type());
      lex.get_function(lex.get_product(wh), t);
      ctx.probe(Q_unrelated_nodes, 6);
   }

   Verdict execute(const Plan& plan, RunCtx& ctx) const override
   {
      const int p1 = int(uint64_t(plan.get("policy", 0)) % 4);
      const int p2 = int(uint64_t(plan.get("policy2", 1)) % 4);
      if (p1 != p2) ctx.probe(Q_policy_pairs_diff);
      const int noise = int(uint64_t(plan.get("noise", 0)) % 8);
      Rng nr(plan.seed ^ 0x6e6f697365ull);
      WorldOptions o1, o2;
      o1.owner = 0; o2.owner = 1;
      o1.check_creation = o2.check_creation = false;
      o1.track_unification = o2.track_unification = false;
      sim::heap::set_fill(1, sim::heap::fill(0) % sim::heap::FillCount + 1);      // what fresh memory contains differs between the two Lexicons
      sim::heap::set_policy(p1);
      World w1(ctx, o1, "C17");
      sim::heap::set_policy(p2);
      World w2(ctx, o2, "C17");
      std::vector<void*> noise_blocks;
      struct Cleanup { std::vector<void*>& b; ~Cleanup() { for (auto p : b) sim::heap::noise_free(p); } } cleanup { noise_blocks };

      for (const Op& op : plan.ops) {
         sim::heap::set_policy(p1);
         Ref r1 = w1.apply(op);
         // scheduler step of the noise client in L2's sub-arena
         sim::heap::set_owner(1);
         sim::heap::set_policy(p2);
         for (int k = 0; k < noise; ++k) {
            if (nr.chance(2, 3)) { noise_blocks.push_back(sim::heap::noise_alloc(size_t(8 + nr.below(200)))); ctx.probe(Q_noise_allocs); }
            else if (not noise_blocks.empty()) { size_t i = size_t(nr.below(noise_blocks.size())); sim::heap::noise_free(noise_blocks[i]); noise_blocks.erase(noise_blocks.begin() + long(i)); }
         }
         if (noise > 0 and nr.chance(1, 3)) unrelated(w2, nr, ctx);
         Ref r2 = w2.apply(op);
         ctx.probe(Q_ops);
         if (w1.failed()) return w1.verdict;
         if (w2.failed()) return w2.verdict;
         if ((r1 == nullptr) != (r2 == nullptr))
            return Verdict::fail("C17/divergent-construction/" + std::string(op_name(op.code)), "the same operation produced a result in one Lexicon and none in the other");
         if (ctx.verbose) ctx.event("%s", describe_op(op).c_str());
      }
      if (w1.order.size() != w2.order.size())
         return Verdict::fail("C17/divergent-construction", "the two executions modelled different numbers of objects: " + std::to_string(w1.order.size()) + " vs " + std::to_string(w2.order.size()));
      ctx.probe(Q_nodes, w1.order.size());
      const uint64_t d1 = w1.graph_digest(), d2 = w2.graph_digest();
      ctx.probe(Q_digest_checks);
      if (d1 != d2) return Verdict::fail("C17/graph-digest", "the address-independent digests of the two graphs differ before printing");
      ctx.event("graph digest %llu objects %zu", (unsigned long long) d1, w1.order.size());

      // which statements carry a sentinel location (file index != 0)
      std::vector<std::string> sentinels;
      for (Ref r : w1.order) {
         const Rec& rc = w1.recs[r];
         const Slot* f = rc.exp.find("source_location.file");
         const Slot* l = rc.exp.find("source_location.line");
         if (f != nullptr and l != nullptr and f->val != 0) { sentinels.push_back("F" + std::to_string((long long) f->val) + ":" + std::to_string((long long) l->val)); ctx.probe(Q_located_stmts); }
      }

      StreamCfg cfg;
      cfg.style = uint64_t(plan.get("style", 0));
      // Fault phase: L1 prints each of its units a few times with one allocation failing in the middle of the print
      // (std::bad_alloc is a legal end of such a print).  Nothing is compared here; the comparisons below then run
      // against a Lexicon that has been through failed prints and one that has not.
      if (const int64_t k0 = plan.get("print_fault", 0); k0 > 0) {
         sim::heap::set_owner(0); sim::heap::set_policy(p1);
         for (size_t u = 0; u < w1.units.size(); ++u) {
            const ipr::Translation_unit& u1 = *w1.units.v[u];
            if (w1.print_weight(static_cast<const ipr::Translation_unit*>(&u1)) > unfolded_limit) continue;
            for (int64_t k : { k0, k0 + 3, k0 + 9, k0 + 20, k0 + 45 }) {
               StreamCfg fc = cfg;
               fc.alloc_fault = uint32_t(k);
               sim::heap::begin_op(w1.step + 1);
               PrintResult r = print_with(*w1.lex, fc, [&](ipr::Printer& pp) { pp << u1; });
               ctx.probe(Q_print_faults_cfg);
               if (r.outcome == PrintResult::AllocFailed) ctx.probe(Q_print_faults_fired);
               ctx.event("faulty print unit#%zu alloc#%lld -> %s", u, (long long) k, outcome_tag(r).c_str());
               if (r.outcome == PrintResult::OtherException)
                  return Verdict::fail("C17/exception/unit", "printing with a failing allocation threw something that is neither std::bad_alloc nor std::logic_error: " + r.what);
            }
         }
      }
      auto compare = [&](const char* what, size_t index, auto emit1, auto emit2) -> Verdict {
         for (int loc = 0; loc < 2; ++loc) {
            cfg.locations = loc != 0;
            sim::heap::set_owner(0); sim::heap::set_policy(p1);
            PrintResult a = print_with(*w1.lex, cfg, emit1);
            PrintResult a2 = print_with(*w1.lex, cfg, emit1);
            sim::heap::set_owner(1); sim::heap::set_policy(p2);
            PrintResult b = print_with(*w2.lex, cfg, emit2);
            const std::string ta = a.text + outcome_tag(a), tb = b.text + outcome_tag(b), ta2 = a2.text + outcome_tag(a2);
            ctx.probe(Q_second_print_eq);
            ctx.probe(Q_bytes, ta.size());
            if (a.outcome == PrintResult::Refused) ctx.probe(Q_refused_prints);
            if (not a.text.empty()) ctx.probe(Q_nonempty_texts);
            ctx.event("print %s#%zu loc=%d -> %zu bytes %s", what, index, loc, a.text.size(), outcome_tag(a).c_str());
            if (ctx.verbose and a.text.size() > 1000000) {
               // where the bytes are: the text with long runs of one letter abbreviated
               std::string brief;
               for (size_t i = 0; i < a.text.size() and brief.size() < 3000; ) {
                  size_t j = i;
                  while (j < a.text.size() and std::tolower((unsigned char) a.text[j]) == std::tolower((unsigned char) a.text[i])) ++j;
                  if (j - i > 8) { brief += a.text[i]; brief += "{" + std::to_string(j - i) + "}"; } else brief.append(a.text, i, j - i);
                  i = j;
               }
               std::printf("BIG %s#%zu: %s\n", what, index, brief.c_str());
            }
            if (ctx.verbose and std::string(what) == "unit") std::printf("----\n%s\n----\n", a.text.substr(0, 1500).c_str());
            if (a.outcome == PrintResult::OtherException or b.outcome == PrintResult::OtherException)
               return Verdict::fail(std::string("C17/exception/") + what, "printing threw something that is not a logic_error: " + a.what + b.what);
            if (ta != ta2)
               return Verdict::fail(std::string("C17/second-print-differs/") + what, std::string("printing ") + what + " #" + std::to_string(index) + " again with a fresh printer gives a different text: \"" + show(ta) + "\" then \"" + show(ta2) + "\"");
            if (ta != tb) {
               size_t k = 0;
               while (k < ta.size() and k < tb.size() and ta[k] == tb[k]) ++k;
               return Verdict::fail(std::string("C17/text-differs/") + what, std::string("the same construction prints differently in the two Lexicons (") + what + " #" + std::to_string(index) + ", locations " + (loc ? "on" : "off") +
                                    ", first difference at byte " + std::to_string(k) + "): L1 \"" + show(ta.substr(k > 40 ? k - 40 : 0)) + "\" L2 \"" + show(tb.substr(k > 40 ? k - 40 : 0)) + "\"");
            }
            // locations appear when, and only when, enabled
            for (auto& s : sentinels) {
               const bool found = a.text.find(s) != std::string::npos;
               if (found and not cfg.locations)
                  return Verdict::fail(std::string("C17/location-printed-when-off/") + what, "sentinel location " + s + " appears in the output although print_locations is off");
               if (found) ctx.probe(Q_locations_seen);
            }
         }
         return Verdict::ok();
      };

      // every unit
      for (size_t u = 0; u < w1.units.size(); ++u) {
         const ipr::Translation_unit& u1 = *w1.units.v[u];
         const ipr::Translation_unit& u2 = *w2.units.v[u];
         const double unit_weight = w1.print_weight(static_cast<const ipr::Translation_unit*>(&u1));
         if (ctx.verbose) { std::printf("unit#%zu unfolded size estimate %.0f\n", u, unit_weight); std::fflush(stdout); }
         if (unit_weight > unfolded_limit) { ctx.probe(Q_too_large); continue; }
         ctx.probe(Q_units_printed);
         ctx.relevant = true;
         if (Verdict v = compare("unit", u, [&](ipr::Printer& pp) { pp << u1; }, [&](ipr::Printer& pp) { pp << u2; }); not v) return v;
      }
      // a sample of individual nodes through the four entry points
      const size_t n = w1.order.size();
      const size_t stride = n > 60 ? n / 60 + 1 : 1;
      for (size_t i = 0; i < n; i += stride) {
         const Rec& rc1 = w1.recs[w1.order[i]];
         const Rec& rc2 = w2.recs[w2.order[i]];
         if (rc1.exp.cat < 0 or rc1.exp.cat != rc2.exp.cat) continue;
         const ipr::Node& n1 = *static_cast<const ipr::Node*>(w1.order[i]);
         const ipr::Node& n2 = *static_cast<const ipr::Node*>(w2.order[i]);
         struct Pick : ipr::Constant_visitor<ipr::No_op> {
            const ipr::Expr* e = nullptr; const ipr::Type* t = nullptr; const ipr::Stmt* s = nullptr; const ipr::Decl* d = nullptr;
            void visit(const ipr::Expr& x) override { e = &x; }
            void visit(const ipr::Type& x) override { e = &x; t = &x; }
            void visit(const ipr::Stmt& x) override { e = &x; s = &x; }
            void visit(const ipr::Decl& x) override { e = &x; s = &x; d = &x; }
            void visit(const ipr::Directive& x) override { e = &x; }
         } k1, k2;
         n1.accept(k1); n2.accept(k2);
         if (k1.e == nullptr or k2.e == nullptr) continue;
         if (w1.print_weight(w1.order[i]) > unfolded_limit) { ctx.probe(Q_too_large); continue; }
         if (ctx.verbose) std::printf("node#%zu %s unfolded size estimate %.0f\n", i, category_name(rc1.exp.cat), w1.print_weight(w1.order[i]));
         if (const char* ex = ctx.verbose ? std::getenv("VERIF_EXPLAIN_WEIGHT") : nullptr; ex != nullptr and std::strtoull(ex, nullptr, 10) == i) { w1.explain_weights = true; w1.print_weight(w1.order[i]); w1.explain_weights = false; }
         ctx.probe(Q_nodes_printed);
         ctx.relevant = true;
         if (k1.d) { if (Verdict v = compare("decl", i, [&](ipr::Printer& pp) { pp << ipr::xpr_decl(*k1.d, true); }, [&](ipr::Printer& pp) { pp << ipr::xpr_decl(*k2.d, true); }); not v) return v; }
         else if (k1.s) { if (Verdict v = compare("stmt", i, [&](ipr::Printer& pp) { pp << ipr::xpr_stmt(*k1.s); }, [&](ipr::Printer& pp) { pp << ipr::xpr_stmt(*k2.s); }); not v) return v; }
         else if (k1.t) { if (Verdict v = compare("type", i, [&](ipr::Printer& pp) { pp << ipr::xpr_type(*k1.t); }, [&](ipr::Printer& pp) { pp << ipr::xpr_type(*k2.t); }); not v) return v; }
         else { if (Verdict v = compare("expr", i, [&](ipr::Printer& pp) { pp << ipr::xpr_expr(*k1.e); }, [&](ipr::Printer& pp) { pp << ipr::xpr_expr(*k2.e); }); not v) return v; }
      }
      // printing left the graphs untouched
      ctx.probe(Q_digest_checks);
      if (w1.graph_digest() != d1 or w2.graph_digest() != d2) return Verdict::fail("C17/graph-changed-by-printing", "the digest of the observable graph changed while printing");
      if (Verdict v = w1.recheck_all(); not v) { v.cls = "C17/graph-changed-by-printing"; return v; }
      ctx.probe(Q_reuse, sim::heap::stats().reused);
      return Verdict::ok();
   }
   std::string describe(const Op& o) const override { return describe_op(o); }
};

// ------------------------------------------------------------------------------ C18
enum P18 { R_ops, R_prints, R_returned, R_refused, R_sink_threw, R_bytes, R_flag_checks, R_decimal_checks, R_control_checks, R_indent_checks, R_kinds_skipped_known,
           R_fault_capacity, R_fault_throwing, R_fault_fired, R_styles_nondefault, R_literal_ctrl_bytes, R_enclosures, R_nesting, R_units, R_entry0, R_entry1, R_entry2, R_entry3, R_too_large, R_reprints, R_count };

struct C18 : Scenario {
   const char* id() const override { return "C18"; }
   const char* title() const override { return "printing terminates and leaves the stream and the printer as it found them"; }
   const char* rule() const override
   {
      return "(a) kind sweep: every node kind the workload language can build (all factories, not only the printable fragment) is offered to every printer entry point that accepts it (xpr_decl, xpr_stmt, xpr_type, xpr_expr; units through operator<<), "
             "each print announced by a breadcrumb so that a death of the worker (stack overflow) is attributed to (entry point, kind); the prologue offers one fresh node of each kind to each entry point in a run of its own. "
             "(b) literal and identifier spellings over all 256 byte values, every Delimiter, statement nestings built bottom-up; statements carry large sentinel locations. (c) simulated streams with unusual initial flags/fill/precision, failing after N bytes "
             "(badbit), throwing, with and without exceptions(badbit). Oracle: the print returns or throws std::logic_error (anything else, or the death of the process, is a violation); when it returns: flags(), fill(), width(), precision() equal their values "
             "before; numbers written afterwards through the same printer are decimal when the stream started decimal; control bytes in the output are newline or occur in a spelling of the graph; Printer::indent() is back at its initial value. "
             "With a failing or throwing sink only termination and memory safety are asserted. Kinds listed as known findings are skipped by the search and re-confirmed separately. Non-trivial = at least one print executed.";
   }
   std::vector<std::string> probe_names() const override
   {
      return { "ops", "prints", "prints_returned", "prints_refused_logic_error", "prints_sink_threw", "bytes_printed", "stream_state_checks", "decimal_checks", "control_byte_checks", "indent_checks",
               "opt.prints_skipped_known_finding", "fault.stream_fails_after_n_bytes", "fault.stream_throws", "fault.stream_failure_fired", "nondefault_initial_stream_state", "spellings_with_control_bytes",
               "enclosures", "opt.deep_statement_nesting", "units_printed", "entry.xpr_decl", "entry.xpr_stmt", "entry.xpr_type", "entry.xpr_expr",
               "opt.prints_left_out_unfolded_size_over_limit", "fault.reprints_through_the_same_printer_after_sink_failure" };
   }
   std::vector<std::string> assumptions() const override
   {
      return { "the harness only builds acyclic print graphs (links go to older nodes; bodies printed in place are sealed leaf bodies), so non-termination is the printer's doing",
               "formatting state is compared only when the print returns normally; with a failing or throwing sink only termination and memory safety are asserted",
               "'decimal' is asserted only when the stream was handed over with a decimal basefield",
               "a print whose unfolded size (estimated from the model) exceeds the limit is left out; termination on such graphs is a matter of time, not of the printer" };
   }

   // prologue: one run per (opcode, entry point): a fresh node of each kind offered alone
   size_t prologue_count(int) const override { return size_t(OP_set_decl_fields) * 4 + 8; }
   Plan prologue(size_t i, int) const override
   {
      Plan p;
      p.seed = 0xC1800 + i;
      p.set("policy", int64_t(i % 4));
      if (i >= size_t(OP_set_decl_fields) * 4) {
         // literal spellings over all byte values, every delimiter, with default and odd stream states
         const size_t k = i - size_t(OP_set_decl_fields) * 4;
         p.set("style", int64_t(k));
         p.set("mode", 1);
         Op u; u.code = OP_new_unit; p.ops.push_back(u);
         for (int b = 0; b < 64; ++b) { Op o; o.code = OP_get_literal_w; o.a[0] = 11; o.a[1] = int64_t(k) * 64 + b; o.a[2] = 3; p.ops.push_back(o); }
         for (int d = 0; d < 5; ++d) { Op o; o.code = OP_make_enclosure; o.a[0] = d; o.a[1] = int64_t(2 * d + int(k)); o.a[2] = 0; p.ops.push_back(o); }
         for (int b = 0; b < 8; ++b) { Op o; o.code = OP_make_var; o.a[0] = 0; o.a[1] = b; o.a[2] = 11; p.ops.push_back(o); Op s; s.code = OP_set_decl_fields; s.a[0] = 0; s.a[1] = b; s.a[2] = int64_t(6 + 8 * b); p.ops.push_back(s); }
         for (int b = 0; b < 6; ++b) { Op o; o.code = OP_set_stmt_fields; o.a[0] = b; o.a[1] = 0; o.a[2] = 7 + b; o.a[3] = 8 + b; o.a[4] = 9 + b; p.ops.push_back(o); }
         return p;
      }
      const int code = int(i / 4);
      p.set("only_entry", int64_t(i % 4));
      p.set("only_last", 1);
      Op u; u.code = OP_new_unit; p.ops.push_back(u);
      Op o; o.code = code;
      for (int k = 0; k < 6; ++k) o.a[k] = int64_t(1 + 2 * k);
      p.ops.push_back(o);
      return p;
   }
   size_t search_count(int tier) const override { return tier == 0 ? 3000 : 120000; }
   Plan generate(uint64_t run_seed, int) const override
   {
      Rng r(run_seed);
      const size_t n = size_t(r.range(20, 160));
      std::vector<OpWeight> tab;
      if (r.chance(1, 3)) tab = clean_table();
      else if (r.chance(1, 2)) tab = printable_table();
      else { for (int c = 0; c < OP_noise_alloc; ++c) tab.push_back({ c, c >= OP_set_decl_fields ? 6 : 2 }); for (int c = OP_macro_var; c < OP_COUNT; ++c) tab.push_back({ c, 8 }); }
      Plan p = gen_world_plan(r, tab, n, int(r.range(3, 24)), 0);
      p.seed = run_seed;
      p.set("style", int64_t(r.below(8)));
      p.set("avoid_known", 1);
      // stream faults in a third of the runs
      switch (r.below(6)) {
      case 0: p.set("capacity", int64_t(r.below(200))); break;
      case 1: p.set("capacity", int64_t(r.below(200))); p.set("throwing", 1); break;
      case 2: p.set("capacity", int64_t(r.below(60))); p.set("exceptions", 1); break;
      default: break;
      }
      return p;
   }

   static bool known_skip(const Plan& plan, const std::string& key)
   {
      if (plan.get("avoid_known", 0) == 0) return false;
      for (auto& s : sim::known_signatures()) if (s.size() >= key.size() and s.compare(s.size() - key.size(), key.size(), key) == 0) return true;
      return false;
   }

   Verdict execute(const Plan& plan, RunCtx& ctx) const override
   {
      WorldOptions wo;
      wo.check_creation = false;
      wo.track_unification = false;
      World w(ctx, wo, "C18");
      Ref last = nullptr;
      for (const Op& op : plan.ops) {
         Ref r = w.apply(op);
         if (r != nullptr) last = r;
         ctx.probe(R_ops);
         if (w.failed()) return w.verdict;
         if (ctx.verbose) ctx.event("%s -> %s", describe_op(op).c_str(), ref_str(r).c_str());
      }
      StreamCfg cfg;
      cfg.style = uint64_t(plan.get("style", 0));
      cfg.capacity = plan.get("capacity", -1) < 0 ? -1 : long(plan.get("capacity", -1));
      cfg.throwing = plan.get("throwing", 0) != 0;
      cfg.exceptions = plan.get("exceptions", 0) != 0;
      const bool faulty_sink = cfg.capacity >= 0;
      cfg.reuse_after_failure = faulty_sink;
      if (faulty_sink) ctx.probe(cfg.throwing ? R_fault_throwing : R_fault_capacity);
      if (cfg.style % 8 != 0) ctx.probe(R_styles_nondefault);
      // control bytes occurring in spellings of the graph
      bool allowed_ctrl[256] = { };
      allowed_ctrl[int('\n')] = true;
      for (auto& kv : w.spelling_of_string) {
         bool any = false;
         for (unsigned char c : kv.second) if (c < 32 or c == 127) { allowed_ctrl[c] = true; any = true; }
         if (any) ctx.probe(R_literal_ctrl_bytes);
      }
      ctx.probe(R_enclosures, w.enclosures.size());
      const bool decimal_start = [&] { std::ostringstream os; sim::apply_style(os, cfg.style); return (os.flags() & std::ios_base::basefield) == std::ios_base::dec; }();

      auto judge = [&](const PrintResult& r, const std::string& key) -> Verdict {
         ctx.probe(R_prints);
         ctx.probe(R_bytes, r.text.size());
         if (r.outcome == PrintResult::OtherException)
            return Verdict::fail("C18/exception/" + key, "printing threw something that is neither std::logic_error nor the sink's failure: " + r.what);
         if (r.outcome == PrintResult::SinkThrew) { ctx.probe(R_sink_threw); ctx.probe(R_fault_fired); return Verdict::ok(); }
         if (r.bad) ctx.probe(R_fault_fired);
         if (r.outcome == PrintResult::Refused) { ctx.probe(R_refused); return Verdict::ok(); }
         ctx.probe(R_returned);
         if (faulty_sink) return Verdict::ok();              // only termination and memory safety with a failing sink
         ctx.probe(R_flag_checks);
         if (not (r.before == r.after)) {
            char b[160];
            std::snprintf(b, sizeof b, "flags %#x -> %#x, fill '%c' -> '%c', width %ld -> %ld, precision %ld -> %ld", unsigned(r.before.flags), unsigned(r.after.flags),
                          r.before.fill, r.after.fill, long(r.before.width), long(r.after.width), long(r.before.precision), long(r.after.precision));
            return Verdict::fail("C18/stream-state-changed/" + key, std::string("the stream's formatting state changed while printing: ") + b + "; output \"" + show(r.text) + "\"");
         }
         if (decimal_start and (cfg.style % 8 == 0 or cfg.style % 8 == 3 or cfg.style % 8 == 7)) {
            ctx.probe(R_decimal_checks);
            const std::string tail = " 255 4095";
            if (r.text.size() < tail.size() or r.text.compare(r.text.size() - tail.size(), tail.size(), tail) != 0)
               return Verdict::fail("C18/numbers-not-decimal/" + key, "numbers written after the print are not decimal: output ends \"" + show(r.text.substr(r.text.size() > 30 ? r.text.size() - 30 : 0)) + "\"");
         }
         ctx.probe(R_control_checks);
         for (unsigned char c : r.text)
            if ((c < 32 or c == 127) and not allowed_ctrl[c]) {
               char b[16];
               std::snprintf(b, sizeof b, "\\x%02x", c);
               return Verdict::fail("C18/control-byte/" + key, std::string("the output contains control byte ") + b + " that occurs in no spelling of the graph: \"" + show(r.text) + "\"");
            }
         ctx.probe(R_indent_checks);
         if (r.indent_after != 0)
            return Verdict::fail("C18/indent/" + key, "Printer::indent() is " + std::to_string(r.indent_after) + " after a complete print, it started at 0");
         return Verdict::ok();
      };

      const int only_entry = int(plan.get("only_entry", -1));
      const bool only_last = plan.get("only_last", 0) != 0;
      // offer every modelled node to every entry point that accepts it
      std::vector<Ref> targets;
      if (only_last) { if (last != nullptr and w.recs.count(last) and w.recs[last].exp.cat >= 0) targets.push_back(last); }
      else targets = w.order;
      const size_t stride = targets.size() > 120 ? targets.size() / 120 + 1 : 1;
      for (size_t i = 0; i < targets.size(); i += stride) {
         const Rec& rc = w.recs[targets[i]];
         if (rc.exp.cat < 0) continue;
         const ipr::Node& n = *static_cast<const ipr::Node*>(targets[i]);
         struct Pick : ipr::Constant_visitor<ipr::No_op> {
            const ipr::Expr* e = nullptr; const ipr::Type* t = nullptr;
            void visit(const ipr::Expr& x) override { e = &x; }
            void visit(const ipr::Type& x) override { e = &x; t = &x; }
            void visit(const ipr::Stmt& x) override { e = &x; }
            void visit(const ipr::Decl& x) override { e = &x; }
            void visit(const ipr::Directive& x) override { e = &x; }
         } k;
         n.accept(k);
         if (k.e == nullptr) continue;
         if (w.print_weight(targets[i]) > unfolded_limit) { ctx.probe(R_too_large); continue; }
         const std::string kind = category_name(rc.exp.cat);
         for (int en = 0; en < 4; ++en) {
            if (only_entry >= 0 and en != only_entry % 4) continue;
            if (en == EN_type and k.t == nullptr) continue;
            const std::string key = std::string(entry_names[en]) + "/" + kind;
            if (known_skip(plan, key)) { ctx.probe(R_kinds_skipped_known); continue; }
            ctx.relevant = true;
            ctx.probe(R_entry0 + en);
            sim::breadcrumb(key.c_str());
            PrintResult r;
            for (int loc = 0; loc < 2; ++loc) {
               cfg.locations = loc != 0;
               switch (en) {
               case EN_decl: r = print_with(*w.lex, cfg, [&](ipr::Printer& pp) { pp << ipr::xpr_decl(*k.e, true); }); break;
               case EN_stmt: r = print_with(*w.lex, cfg, [&](ipr::Printer& pp) { pp << ipr::xpr_stmt(*k.e); }); break;
               case EN_type: r = print_with(*w.lex, cfg, [&](ipr::Printer& pp) { pp << ipr::xpr_type(*k.t); }); break;
               default: r = print_with(*w.lex, cfg, [&](ipr::Printer& pp) { pp << ipr::xpr_expr(*k.e); }); break;
               }
               if (ctx.verbose) ctx.event("print %s loc=%d -> %zu bytes %s", key.c_str(), loc, r.text.size(), outcome_tag(r).c_str());
               else ctx.event("print %s %zu %d", key.c_str(), r.text.size(), int(r.outcome));
               if (Verdict v = judge(r, key); not v) return v;
               if (r.again_done) {
                  // whether a construct is supported does not depend on what the Printer went through before: the reprint through the
                  // same Printer on the repaired stream ends the way a print through a fresh Printer on a healthy stream does
                  ctx.probe(R_reprints);
                  StreamCfg healthy = cfg;
                  healthy.capacity = -1; healthy.throwing = false; healthy.reuse_after_failure = false;
                  PrintResult ref;
                  switch (en) {
                  case EN_decl: ref = print_with(*w.lex, healthy, [&](ipr::Printer& pp) { pp << ipr::xpr_decl(*k.e, true); }); break;
                  case EN_stmt: ref = print_with(*w.lex, healthy, [&](ipr::Printer& pp) { pp << ipr::xpr_stmt(*k.e); }); break;
                  case EN_type: ref = print_with(*w.lex, healthy, [&](ipr::Printer& pp) { pp << ipr::xpr_type(*k.t); }); break;
                  default: ref = print_with(*w.lex, healthy, [&](ipr::Printer& pp) { pp << ipr::xpr_expr(*k.e); }); break;
                  }
                  if (ref.outcome != r.again and (ref.outcome == PrintResult::Returned or ref.outcome == PrintResult::Refused))
                     return Verdict::fail("C18/reprint-after-sink-failure/" + key, "after the stream failed and was repaired, printing the same node through the same Printer " +
                                          std::string(r.again == PrintResult::Refused ? "throws logic_error (" + r.again_what + ")" : r.again == PrintResult::Returned ? "completes" : "fails in the sink") +
                                          ", a fresh Printer " + (ref.outcome == PrintResult::Refused ? "refuses it" : "prints it"));
               }
            }
         }
      }
      sim::breadcrumb("units");
      if (only_entry < 0)
         for (auto u : w.units.v) {
            const ipr::Translation_unit& ui = *u;
            if (w.print_weight(static_cast<const ipr::Translation_unit*>(&ui)) > unfolded_limit) { ctx.probe(R_too_large); continue; }
            ctx.probe(R_units);
            ctx.relevant = true;
            for (int loc = 0; loc < 2; ++loc) {
               cfg.locations = loc != 0;
               PrintResult r = print_with(*w.lex, cfg, [&](ipr::Printer& pp) { pp << ui; });
               ctx.event("print unit loc=%d -> %zu bytes %s", loc, r.text.size(), outcome_tag(r).c_str());
               if (Verdict v = judge(r, "unit"); not v) return v;
            }
         }
      sim::breadcrumb("done");
      return Verdict::ok();
   }
   std::string describe(const Op& o) const override { return describe_op(o); }
};

C17 c17; Registrar r17(&c17);
C18 c18; Registrar r18(&c18);
}

// Properties decided on the full workload engine (all factories, member-adding functions and
// setters): C02, C05, C07, C09, C12, C14, C15, C16.  One scenario class, configured per
// property: workload mix, which oracles run and how often.
#include "worldgen.hpp"
#include <ipr/traversal>

namespace {
using namespace props;

enum Probe { P_ops, P_creation_checks, P_rechecks, P_objects, P_scope_checks, P_region_checks, P_subst_checks, P_product_checks,
             P_sweeps, P_swept_unmodelled, P_oob_probes, P_refused, P_accessor_calls, P_derived_checks, P_noise, P_fault_cfg, P_fault_fired,
             P_reuse, P_pol0, P_pol1, P_pol2, P_pol3, P_long_run, P_redeclarations, P_scopes, P_homos, P_regions, P_max_depth, P_handlers,
             P_rebindings, P_params, P_units, P_factories_covered, P_setters, P_FIXED };

std::vector<std::string> fixed_probe_names()
{
   return { "ops", "creation_checks", "full_rechecks", "modelled_objects", "scope_checks", "region_checks", "substitution_checks", "product_checks",
            "reachability_sweeps", "swept_unmodelled_nodes", "out_of_range_probes", "accessor_calls_refused", "accessor_calls", "derived_checks", "noise_ops",
            "fault.alloc_configured", "fault.alloc_fired", "heap.reused_blocks", "heap.ascending", "heap.descending", "heap.scatter", "heap.lifo",
            "long_run", "redeclarations", "heterogeneous_scopes", "homogeneous_scopes", "regions", "opt.max_region_depth", "handlers",
            "substitution_rebindings", "parameters", "units_and_modules", "distinct_factories_with_result", "setter_ops" };
}

struct Mode {
   const char* id;
   const char* title;
   const char* rule;
   bool op_probes = false;            // one probe per opcode (factory coverage)
   int recheck_every = 0;             // re-observe all modelled objects every k steps (0: only at the end)
   size_t recheck_window = 0;         // rotate through at most this many objects per recheck (0: all)
   int scopes_every = 0;
   int homos_every = 0;               // homogeneous scopes only (parameters, enumerators, bases, handler regions)
   int regions_every = 0;
   int substs_every = 0;
   int products_every = 0;
   int sweep_every = 0;
   bool sweep_at_end = false;
   int derived_every = 0;
   bool creation = true;
   bool final_recheck = true;
   int fault_den = 4;                 // one run in fault_den carries allocation failures (0: never)
   int quick_runs = 2500, thorough_runs = 250000;
   int min_ops = 20, max_ops = 160;
};

std::vector<OpWeight> weighted(std::initializer_list<std::pair<std::pair<int, int>, int>> groups, std::initializer_list<OpWeight> extra = { })
{
   std::vector<OpWeight> t;
   for (auto& g : groups)
      for (int c = g.first.first; c < g.first.second; ++c) t.push_back({ c, g.second });
   for (auto& e : extra) {
      bool found = false;
      for (auto& w : t) if (w.code == e.code) { w.weight = e.weight; found = true; }
      if (not found) t.push_back(e);
   }
   return t;
}

// groups of the opcode table
constexpr std::pair<int, int> G_generic { 0, OP_get_string };
constexpr std::pair<int, int> G_names { OP_get_string, OP_get_transfer_from_linkage };
constexpr std::pair<int, int> G_types { OP_get_transfer_from_linkage, OP_make_phantom };
constexpr std::pair<int, int> G_exprs { OP_make_phantom, OP_make_specifiers_spread };
constexpr std::pair<int, int> G_dirs { OP_make_specifiers_spread, OP_make_break };
constexpr std::pair<int, int> G_stmts { OP_make_break, OP_make_subregion };
constexpr std::pair<int, int> G_decls { OP_make_subregion, OP_new_unit };
constexpr std::pair<int, int> G_units { OP_new_unit, OP_make_monadic_constraint };
constexpr std::pair<int, int> G_forms { OP_make_monadic_constraint, OP_new_token };
constexpr std::pair<int, int> G_attrs { OP_new_token, OP_set_decl_fields };
constexpr std::pair<int, int> G_setters { OP_set_decl_fields, OP_noise_alloc };
constexpr std::pair<int, int> G_noise { OP_noise_alloc, OP_get_string_huge };
constexpr std::pair<int, int> G_macros { OP_get_string_huge, OP_COUNT };

struct GraphScenario : Scenario {
   Mode m;
   std::vector<OpWeight> tab;
   GraphScenario(Mode mode, std::vector<OpWeight> t) : m(mode), tab(std::move(t)) { }

   const char* id() const override { return m.id; }
   const char* title() const override { return m.title; }
   const char* rule() const override { return m.rule; }
   std::vector<std::string> probe_names() const override
   {
      auto n = fixed_probe_names();
      auto optional = [&](int i) { n[size_t(i)] = "opt." + n[size_t(i)]; };
      if (not m.creation) optional(P_creation_checks);
      if (m.scopes_every == 0) { optional(P_redeclarations); if (m.homos_every == 0) optional(P_scope_checks); }
      if (m.regions_every == 0) optional(P_region_checks);
      if (m.substs_every == 0) { optional(P_subst_checks); optional(P_rebindings); }
      if (m.products_every == 0) optional(P_product_checks);
      if (m.sweep_every == 0 and not m.sweep_at_end) { optional(P_sweeps); optional(P_swept_unmodelled); optional(P_oob_probes); }
      if (m.derived_every == 0) optional(P_derived_checks);
      if (m.fault_den == 0) { optional(P_fault_cfg); optional(P_fault_fired); }
      if (m.recheck_every == 0 and not m.final_recheck) optional(P_rechecks);
      if (m.op_probes) for (int c = 0; c < OP_COUNT; ++c) n.push_back(std::string(op_is_factory(c) ? "factory." : "opt.op.") + op_name(c));
      return n;
   }
   std::vector<std::string> assumptions() const override
   {
      return { "the harness stays inside the library's preconditions: a (scope, name, type) triple is declared through one declaration kind; no null entry is placed in a sequence; "
               "objects the library keeps by reference are Lexicon-owned or kept alive by the harness; node identity is compared on the ipr::Node sub-object",
               "within one homogeneous scope (parameters, enumerators, bases) names are pairwise distinct",
               "expected readings are built from the inputs of each operation, never by observing; slots the inputs do not determine are not asserted",
               "after an injected bad_alloc the container being mutated is no longer held to the model; everything returned earlier still is" };
   }

   size_t prologue_count(int) const override { return 8; }
   Plan prologue(size_t i, int) const override
   {
      // every opcode, three passes (later passes find the prerequisites the earlier ones built), 8 variants
      Plan p;
      p.seed = 0x6000 + i;
      p.set("policy", int64_t(i % 4));
      Op u; u.code = OP_new_unit; p.ops.push_back(u);
      Op mo; mo.code = OP_new_module; p.ops.push_back(mo);
      for (int pass = 0; pass < 3; ++pass)
         for (int c = 0; c < OP_noise_alloc; ++c) {
            Op o;
            o.code = c;
            for (int k = 0; k < 6; ++k) o.a[k] = int64_t(1 + i + size_t(pass) * 7 + size_t(3 * k) + size_t(c % 11));
            p.ops.push_back(o);
         }
      return p;
   }

   size_t search_count(int tier) const override { return size_t(tier == 0 ? m.quick_runs : m.thorough_runs); }

   Plan generate(uint64_t run_seed, int tier) const override
   {
      Rng r(run_seed);
      const bool long_run = r.chance(1, tier == 0 ? 400 : 1500);
      const size_t n = long_run ? size_t(r.range(1500, tier == 0 ? 4000 : 12000)) : size_t(r.range(m.min_ops, m.max_ops));
      const int range = int(long_run ? r.range(10, 200) : r.range(3, 30));
      std::vector<OpWeight> table = tab;
      size_t nops = n;
      if (not long_run and r.chance(1, 3)) {
         // focused run (swarm style): a handful of opcodes take most of the weight, so that a single farm, deque, vector or
         // tree is pushed through several growth steps
         int total = 0;
         for (auto& w : table) total += w.weight;
         const int k = int(r.range(2, 5));
         for (int j = 0; j < k; ++j) table[size_t(r.below(table.size()))].weight += total;
         nops = size_t(r.range(120, 420));
      }
      Plan p = gen_world_plan(r, table, nops, range, long_run ? 0 : m.fault_den);
      p.seed = run_seed;
      p.set("long", long_run);
      return p;
   }

   Verdict execute(const Plan& plan, RunCtx& ctx) const override
   {
      WorldOptions wo;
      wo.check_creation = m.creation;
      wo.track_unification = false;
      World w(ctx, wo, m.id);
      ctx.probe(P_pol0 + int(uint64_t(plan.get("policy", 0)) % 4));
      const bool long_run = plan.get("long", 0) != 0;
      if (long_run) ctx.probe(P_long_run);
      const int stretch = long_run ? 16 : 1;           // long runs check less often
      auto& oc = obs_counters();
      oc = ObsCounters{ };
      std::vector<char> factory_hit(OP_COUNT, 0);

      auto periodic = [&](bool final) -> Verdict {
         auto due = [&](int every) { return every > 0 and (final or w.step % uint32_t(every * stretch) == 0); };
         if (due(m.recheck_every) or (final and m.final_recheck)) {
            ctx.probe(P_rechecks);
            if (Verdict v = w.recheck_all(final ? 0 : m.recheck_window); not v) return v;
         }
         if (due(m.scopes_every)) { ctx.probe(P_scope_checks); if (Verdict v = w.check_all_scopes(); not v) return v; }
         if (due(m.homos_every)) { ctx.probe(P_scope_checks); for (auto& h : w.homos) if (Verdict v = w.check_homogeneous(h); not v) return v; }
         if (due(m.regions_every)) { ctx.probe(P_region_checks); if (Verdict v = w.check_regions(); not v) return v; }
         if (due(m.substs_every)) { ctx.probe(P_subst_checks); if (Verdict v = w.check_substitutions(); not v) return v; }
         if (due(m.products_every)) { ctx.probe(P_product_checks); if (Verdict v = w.check_products(); not v) return v; }
         if (due(m.derived_every)) { ctx.probe(P_derived_checks); if (Verdict v = w.check_derived(); not v) return v; if (Verdict v2 = w.check_value_equalities(); not v2) return v2; }
         if (due(m.sweep_every) or (final and m.sweep_at_end)) { ctx.probe(P_sweeps); if (Verdict v = w.sweep_reachable(); not v) return v; }
         return Verdict::ok();
      };

      for (const Op& op : plan.ops) {
         const int code = ((op.code % OP_COUNT) + OP_COUNT) % OP_COUNT;
         Ref r = w.apply(op);
         ctx.probe(P_ops);
         if (code == OP_noise_alloc or code == OP_noise_free) ctx.probe(P_noise);
         if (code >= OP_set_decl_fields and code < OP_noise_alloc and r != nullptr) ctx.probe(P_setters);
         if (ctx.verbose or w.step <= 3000) ctx.event("%s -> %s", describe_op(op).c_str(), ref_str(r).c_str());
         if (w.failed()) return w.verdict;
         if (r != nullptr) { ctx.relevant = true; factory_hit[size_t(code)] = 1; if (m.op_probes) ctx.probe(P_FIXED + code); }
         if (Verdict v = periodic(false); not v) return v;
      }
      if (Verdict v = periodic(true); not v) return v;
      if (w.failed()) return w.verdict;

      ctx.probe(P_creation_checks, w.creation_checks);
      ctx.probe(P_objects, w.order.size());
      ctx.probe(P_fault_cfg, w.faults_configured);
      ctx.probe(P_fault_fired, w.faults_fired);
      ctx.probe(P_reuse, sim::heap::stats().reused);
      ctx.probe(P_swept_unmodelled, w.swept_unmodelled);
      ctx.probe(P_oob_probes, oc.out_of_range_probes);
      ctx.probe(P_refused, oc.refused);
      ctx.probe(P_accessor_calls, oc.accessor_calls);
      ctx.probe(P_scopes, w.scopes.size());
      ctx.probe(P_homos, w.homos.size());
      ctx.probe(P_regions, w.region_models.size());
      ctx.probe(P_handlers, w.handlers.size());
      ctx.probe(P_params, w.params.size());
      ctx.probe(P_units, w.units.size() + w.modules.size() + w.module_units.size());
      size_t redecl = 0;
      for (auto& kv : w.scopes) {
         std::map<std::pair<const ipr::Name*, const ipr::Type*>, int> cnt;
         for (auto& de : kv.second.decls) if (++cnt[{ de.name, de.type }] == 2) ++redecl;
      }
      ctx.probe(P_redeclarations, redecl);
      int maxd = 0;
      for (auto& kv : w.region_models) maxd = std::max(maxd, kv.second.depth);
      if (maxd >= 4) ctx.probe(P_max_depth);
      size_t rebind = 0;
      for (auto& kv : w.subst_models) rebind += kv.second.size();
      ctx.probe(P_rebindings, rebind);
      size_t covered = 0;
      for (int c = 0; c < OP_COUNT; ++c) if (factory_hit[size_t(c)] and op_is_factory(c)) ++covered;
      ctx.probe(P_factories_covered, covered);
      return Verdict::ok();
   }
   std::string describe(const Op& o) const override { return describe_op(o); }
};

// ------------------------------------------------------------------------------ C02
GraphScenario c02({
   "C02", "every factory-built node reports exactly the operands it was built from",
   "Every callable factory of the implementation (see DESIGN-inventory.md; one opcode per factory overload, plus member-adding functions and the public setters of impl:: nodes) is driven with operands drawn from the evolved graph; "
   "operands of equal static type are chosen pairwise distinct, scalars (delimiters, binding modes, phases, category codes, positions, qualifier sets) vary. "
   "Oracle: the node's reading through ipr:: interface classes only (every documented accessor and alias, optional parts, sequences by index and by iteration) equals the expectation built from the operation's inputs, at creation. "
   "Honest note: no schedule or fault matters for this property on the current code; it is decided here because conformance at creation is the operation-by-operation model check of every simulated run. "
   "The seed-independent prologue calls every opcode three times in 8 variants; per-factory counters are in 'probes' (factory.*). Non-trivial = at least one factory result checked.",
   true, 0, 0, 0, 0, 0, 0, 0, 0, false, 0, true, true, 0, 6000, 250000, 20, 200 },
   weighted({ { G_generic, 3 }, { G_names, 3 }, { G_types, 3 }, { G_exprs, 3 }, { G_dirs, 3 }, { G_stmts, 3 }, { G_decls, 3 }, { G_units, 1 }, { G_forms, 2 }, { G_attrs, 2 },
              { G_setters, 2 }, { G_noise, 3 }, { G_macros, 2 } }));

// ------------------------------------------------------------------------------ C05
GraphScenario c05({
   "C05", "node identity is stable: nodes never move, never silently change, never alias",
   "The full workload language on one Lexicon, long enough to push every backing store through several growth steps (farms, deques of enumerators, vectors of declarations, string pool, unification trees), "
   "under four heap placement policies (freed blocks stay poisoned, so a read through a stale reference traps) and with allocation failure injected into a minority of runs. "
   "Oracle after every step: every previously returned object is re-observed through its recorded address and must read exactly as its model record says, where the record changes only by members the client explicitly appended "
   "and fields it explicitly set; every result of a generative constructor (make_ family except literals and template-ids) is distinct from every live modelled object. For large graphs the per-step re-observation rotates "
   "(all objects at least every 16 steps and at the end). Non-trivial = at least one object re-observed after a later step.",
   false, 1, 400, 0, 0, 0, 0, 0, 0, false, 0, true, true, 4, 1200, 120000, 30, 220 },
   weighted({ { G_generic, 3 }, { G_names, 4 }, { G_types, 4 }, { G_exprs, 3 }, { G_dirs, 2 }, { G_stmts, 3 }, { G_decls, 5 }, { G_units, 1 }, { G_forms, 2 }, { G_attrs, 2 },
              { G_setters, 3 }, { G_noise, 4 }, { G_macros, 2 } }));

// ------------------------------------------------------------------------------ C07
GraphScenario c07({
   "C07", "scopes, overload sets and declaration sets are mutually consistent",
   "On several scopes per run (global scopes, namespace/class/union/closure bodies, block scopes, handler bodies, Where regions, sub-regions): sequences of make_var/field/bitfield/alias/typedecl/fundecl/primary_template/"
   "secondary_template over few names and few types with heavy repetition (redeclarations), interleaved across scopes and with noise; parameter lists, enumerations, base lists and handler regions grown member by member. "
   "Overload sets are found by the address of the name and entries by the address of the type, so the heap policy decides the tree shapes. "
   "Oracle after every step on every scope: elements in entry order; type() is the product of the declarations' types; scope[name] valid exactly for declared names; overload[type] is the first declaration of that name and type, "
   "invalid for other types; master() is that first declaration; decl_set() lists exactly the declarations sharing name and type in entry order; homogeneous scopes: singleton sets, position == index, lookup by name and selection by type. "
   "Non-trivial = at least one declaration entered.",
   false, 0, 0, 1, 0, 0, 0, 0, 0, false, 0, true, false, 4, 6000, 250000, 15, 120 },
   weighted({ { G_decls, 20 } }, { { OP_make_subregion, 4 }, { OP_new_unit, 2 }, { OP_make_class, 4 }, { OP_make_union, 2 }, { OP_make_namespace, 3 }, { OP_make_enum, 4 }, { OP_make_closure, 1 },
              { OP_make_block, 4 }, { OP_block_new_handler, 4 }, { OP_make_where_region, 2 }, { OP_make_mapping, 5 }, { OP_make_lambda, 2 }, { OP_make_requires, 2 }, { OP_make_function_morphism, 2 },
              { OP_get_identifier_w, 8 }, { OP_get_operator_w, 2 }, { OP_get_conversion, 1 }, { OP_get_pointer, 4 }, { OP_get_qualified, 2 }, { OP_get_function2, 4 }, { OP_get_product_wh, 3 },
              { OP_get_forall, 3 }, { OP_get_literal_w, 2 }, { OP_set_decl_fields, 6 }, { OP_set_udt_fields, 3 }, { OP_noise_alloc, 5 }, { OP_noise_free, 3 } }));

// ------------------------------------------------------------------------------ C09
GraphScenario c09({
   "C09", "every node has the type its kind prescribes; sequence types track their members",
   "Creation-time and every-step observation with a typing table as the model: kind-fixed types (void for break/continue/asm/delete_value; bool for static-assert, requires, restriction, true/false; the kind type for "
   "classes/unions/enums/namespaces and class for closures; typename for every built-in and compound type; decltype(nullptr) for nullptr), borrowed types checked as agreement (rewrite -> target; where -> main; "
   "expression/labeled/goto statements, do/while/switch/for/for-in once their body is set, phased evaluation, instantiation -> the designated sub-node; casts and literals -> the target type; id-expression of a declaration -> its type), "
   "given types (every factory with a type parameter reports exactly it; absent => logic_error). For scopes, parameter lists and expression lists the product type is re-checked after every addition. "
   "Non-trivial = at least one typed node checked.",
   false, 4, 300, 0, 0, 0, 0, 1, 0, false, 0, true, true, 4, 2500, 250000, 20, 180 },
   weighted({ { G_generic, 4 }, { G_names, 2 }, { G_types, 4 }, { G_exprs, 5 }, { G_dirs, 3 }, { G_stmts, 5 }, { G_decls, 5 }, { G_units, 1 }, { G_forms, 1 }, { G_setters, 4 }, { G_noise, 2 } },
            { { OP_expr_list_push_back, 12 }, { OP_plist_add_member, 10 }, { OP_mapping_param, 6 }, { OP_set_loop_fields, 10 }, { OP_set_expr_fields, 8 } }));

// ------------------------------------------------------------------------------ C12
GraphScenario c12({
   "C12", "regions form a tree rooted at the global region; owners and positions are right",
   "Random nesting, in random creation order, of sub-regions, class/union/enum/namespace/closure bodies, blocks (+handlers), mappings, lambdas, requires-expressions, Where regions and function declarator morphisms, "
   "with parameters, enumerators and bases added at random moments; several units and modules per Lexicon. Oracle after every step: enclosing() is the region the construct was created in; walking outward from any region reaches "
   "its unit's global region in exactly the modelled number of steps; global() only there; owner links for class, union, enum, namespace, closure, block, mapping and lambda; a handler's body region is enclosed by a region binding exactly "
   "the exception parameter, itself enclosed by the region enclosing the guarded block; home region, level and zero-based position of parameters/enumerators/bases (homogeneous-scope oracle); every unit's global namespace is unnamed and "
   "typed `namespace`; module units link back to their module. Not asserted: an owner for a handler's body region (the statement speaks of its enclosure only). Non-trivial = at least one region created.",
   false, 0, 0, 0, 4, 1, 0, 0, 0, false, 0, true, true, 4, 6000, 250000, 15, 140 },
   weighted({ { G_units, 3 } }, { { OP_make_subregion, 12 }, { OP_make_class, 8 }, { OP_make_union, 5 }, { OP_make_namespace, 6 }, { OP_make_enum, 6 }, { OP_make_closure, 4 }, { OP_make_block, 10 },
              { OP_block_new_handler, 8 }, { OP_make_where_region, 5 }, { OP_make_mapping, 8 }, { OP_lexicon_make_mapping, 3 }, { OP_make_lambda, 6 }, { OP_make_requires, 5 }, { OP_make_function_morphism, 5 },
              { OP_plist_add_member, 8 }, { OP_mapping_param, 5 }, { OP_enum_add_member, 8 }, { OP_class_declare_base, 6 }, { OP_get_identifier_w, 6 }, { OP_get_pointer, 3 }, { OP_make_var, 3 },
              { OP_set_udt_fields, 3 }, { OP_noise_alloc, 4 }, { OP_noise_free, 2 } }));

// ------------------------------------------------------------------------------ C14
GraphScenario c14({
   "C14", "missing or out-of-range data raises a logic error, never undefined behaviour",
   "The full workload with a high share of nodes left partially built (loops without body, declarations without home region / linkage / lexical region, lambdas without closure, templates without mapping, user-defined types "
   "without name ...) and setters applied at random moments. After every few steps an accessor sweep calls every accessor of every interface class on every modelled object and on every node reachable from them that the model "
   "does not know (scope types, overload sets, type-ids, homogeneous scopes ...), and for every sequence reached: size(), empty(), begin()..end(), position(i) for i in 0..size()+2, SIZE_MAX/2 and SIZE_MAX. "
   "Oracle: each call returns (and its result is touched, so a dangling reference traps under ASan and a null reference under UBSan) or throws an exception derived from std::logic_error; an element at or beyond size() "
   "is always refused; iteration visits exactly size() elements and agrees with positional access. Built with AddressSanitizer and UBSan (-fno-sanitize-recover). Non-trivial = at least one accessor sweep executed.",
   false, 0, 0, 0, 0, 0, 0, 0, 6, true, 0, false, false, 4, 2000, 200000, 20, 150 },
   weighted({ { G_generic, 2 }, { G_names, 2 }, { G_types, 3 }, { G_exprs, 4 }, { G_dirs, 4 }, { G_stmts, 5 }, { G_decls, 5 }, { G_units, 2 }, { G_forms, 3 }, { G_attrs, 3 },
              { G_setters, 4 }, { G_noise, 2 }, { G_macros, 2 } }));

// ------------------------------------------------------------------------------ C15
GraphScenario c15({
   "C15", "derived interface operations agree with the primitives they are defined from",
   "Every-step observation on graphs whose containers go through the states empty -> singleton -> many (blocks with and without handlers, user-defined types, templates with and without mapping, parameter lists, products, sums, "
   "expression lists): for each node the convenience operation and its definition are both evaluated and compared — empty() <=> size()==0, begin/end/position against get, Product/Sum/Expr_list/Scope/Parameter_list size/operator[]/begin/end, "
   "Udt::scope() <=> region().bindings(), members(), Block::body() <=> region().body(), try_block() <=> handlers().size() != 0, Template::parameters/result <=> mapping(), Parameter::default_value <=> initializer, "
   "Type::linkage <=> transfer().linkage(), every named alias <=> the operand it is documented for; == / != on logograms, linkages, conventions, transfers, basic specifiers and qualifiers form an equivalence that holds exactly for equal spellings "
   "(all pairs in the run's pools). Non-trivial = at least one derived operation compared.",
   false, 3, 300, 0, 0, 0, 0, 0, 0, false, 1, false, true, 0, 2500, 250000, 20, 160 },
   weighted({ { G_generic, 2 }, { G_names, 4 }, { G_types, 4 }, { G_exprs, 3 }, { G_dirs, 2 }, { G_stmts, 4 }, { G_decls, 5 }, { G_units, 1 }, { G_forms, 2 }, { G_attrs, 2 }, { G_setters, 4 }, { G_noise, 2 } },
            { { OP_make_block, 8 }, { OP_block_new_handler, 8 }, { OP_block_add_stmt, 6 }, { OP_get_linkage_w, 6 }, { OP_get_calling_convention, 6 }, { OP_get_transfer, 6 }, { OP_get_logogram, 6 },
              { OP_make_primary_template, 5 }, { OP_set_decl_fields, 8 }, { OP_get_product_wh, 5 }, { OP_get_sum_wh, 4 }, { OP_expr_list_push_back, 6 } }));

// ------------------------------------------------------------------------------ C16
GraphScenario c16({
   "C16", "substitutions behave as finite maps from parameters to expressions",
   "Parameters from several mappings, lambdas and requires-expressions (arena addresses, so the heap policy decides the order inside the address-keyed map), elementary substitutions, general substitutions built by random subst() "
   "sequences with rebinding, queried after every step with every parameter of the run (inside and outside each domain), interleaved with noise. Oracle: a map parameter -> expression per substitution: in domain -> the latest "
   "bound expression; outside -> the queried parameter itself. Non-trivial = at least one substitution queried.",
   false, 0, 0, 0, 0, 0, 1, 0, 0, false, 0, true, false, 4, 9000, 300000, 10, 100 },
   weighted({ }, { { OP_make_mapping, 8 }, { OP_make_lambda, 3 }, { OP_make_requires, 2 }, { OP_plist_add_member, 14 }, { OP_mapping_param, 8 }, { OP_make_elementary_substitution, 12 },
              { OP_make_general_substitution, 6 }, { OP_general_subst, 22 }, { OP_make_instantiation, 4 }, { OP_get_identifier_w, 8 }, { OP_get_literal_w, 5 }, { OP_make_plus, 3 }, { OP_get_pointer, 3 },
              { OP_new_unit, 1 }, { OP_noise_alloc, 6 }, { OP_noise_free, 4 } }));

Registrar r02(&c02), r05(&c05), r07(&c07), r09(&c09), r12(&c12), r14(&c14), r15(&c15), r16(&c16);
}

// C03 — words are interned: one String node per distinct byte content, content preserved,
// no later interning alters or invalidates an earlier String; the empty word and the reserved
// words map to their process-wide constants.
#include "../sim/scenario.hpp"
#include "../sim/heap.hpp"
#include <ipr/impl>
#include <ipr/traversal>
#include <map>
#include <string>
#include <vector>
#include <cstring>
#include <cstdlib>
#include <memory>
#include <functional>
#include <string_view>

namespace {
using namespace sim;
using ipr::util::word_view;

enum Probe { P_pool_standalone, P_pool_lexicon, P_interns, P_new_words, P_repeat_hits, P_reserved, P_near_miss, P_empty,
             P_rollover, P_exact_fill, P_oversize, P_granule_boundary, P_nul_bytes, P_unterminated_src, P_rereads,
             P_pools_coexist, P_pool_dropped, P_fault_cfg, P_fault_fired, P_fault_retry_ok, P_reuse, P_hash_collisions, P_count };

enum OpCode { OpIntern = 0, OpReread = 1, OpNewPool = 2, OpDropPool = 3, OpFill = 4 };
enum WordClass { WRandom = 0, WGranule = 1, WReserved = 2, WNearMiss = 3, WHuge = 4, WRepeat = 5, WNeighbour = 6, WCollide = 7, WClassCount = 8 };

constexpr long headers_per_pool = 16L << 12;      // util::string::arena::bufsz (mirrors the source; used for targeting only)

long headers_for(long n) { return (n - 8 + 16 - 1) / 16 + 1; }

struct Reserved {
   std::string spelling;
   const ipr::String* node;
};

// The reserved spellings reachable through the public API, with the constant node each one denotes.
std::vector<Reserved> reserved_table(ipr::impl::Lexicon& lex)
{
   std::vector<Reserved> t;
   auto add = [&](const ipr::String& s) {
      auto w = s.characters();
      std::string sp(reinterpret_cast<const char*>(w.data()), w.size());
      for (auto& r : t) if (r.spelling == sp) return;
      t.push_back({ sp, &s });
   };
   auto add_type = [&](const ipr::Type& ty) {
      if (auto id = ipr::util::view<ipr::Identifier>(ty.name())) add(id->string());
   };
   const ipr::Lexicon& L = lex;
   add_type(L.void_type()); add_type(L.bool_type()); add_type(L.char_type()); add_type(L.schar_type()); add_type(L.uchar_type());
   add_type(L.wchar_t_type()); add_type(L.char8_t_type()); add_type(L.char16_t_type()); add_type(L.char32_t_type());
   add_type(L.short_type()); add_type(L.ushort_type()); add_type(L.int_type()); add_type(L.uint_type()); add_type(L.long_type());
   add_type(L.ulong_type()); add_type(L.long_long_type()); add_type(L.ulong_long_type()); add_type(L.float_type());
   add_type(L.double_type()); add_type(L.long_double_type()); add_type(L.ellipsis_type()); add_type(L.typename_type());
   add_type(L.class_type()); add_type(L.union_type()); add_type(L.enum_type()); add_type(L.namespace_type());
   add_type(L.default_value().type());      // "auto"
   for (auto sym : { &L.false_value(), &L.true_value(), &L.nullptr_value(), &L.default_value(), &L.delete_value() })
      if (auto id = ipr::util::view<ipr::Identifier>(sym->name())) add(id->string());
   add(L.c_linkage().language().what());
   add(L.cxx_linkage().language().what());
   for (auto b : L.decompose(ipr::Specifiers(~std::uintptr_t{ }))) add(b.logogram().what());
   for (auto b : L.decompose(ipr::Qualifiers(~std::uintptr_t{ }))) add(b.logogram().what());
   {
      SutScope s;
      if (auto id = ipr::util::view<ipr::Identifier>(lex.get_this(L.int_type()).name())) add(id->string());
   }
   return t;
}

// Equal-hash, equal-length neighbours: libstdc++'s std::hash over bytes is a 64-bit Murmur variant whose block
// mixing is invertible, so a second word with the same hash is constructed by changing the first 8-byte block and
// solving for the second.  The construction is verified with std::hash itself; if the library's hash is a different
// one the pair is simply not used.
namespace collide {
   constexpr uint64_t mul = (uint64_t(0xc6a4a793UL) << 32) + 0x5bd1e995UL;
   constexpr uint64_t seed = 0xc70f6907UL;
   constexpr uint64_t shift_mix(uint64_t v) { return v ^ (v >> 47); }
   constexpr uint64_t inverse(uint64_t a) { uint64_t x = a; for (int i = 0; i < 6; ++i) x *= 2 - a * x; return x; }
   constexpr uint64_t inv_mul = inverse(mul);
   static_assert(mul * inv_mul == 1);
   inline uint64_t d(uint64_t k) { return shift_mix(k * mul) * mul; }
   inline uint64_t inv_d(uint64_t x) { return shift_mix(x * inv_mul) * inv_mul; }
   inline uint64_t load(const std::string& w, size_t at) { uint64_t k; std::memcpy(&k, w.data() + at, 8); return k; }
   // returns a word different from `a` (same length >= 16) with the same std::hash, or "" when that cannot be confirmed
   inline std::string partner(const std::string& a)
   {
      if (a.size() < 16) return "";
      std::string b = a;
      b[0] = char(b[0] ^ 0x5a);
      const uint64_t h0 = seed ^ (uint64_t(a.size()) * mul);
      const uint64_t h1a = (h0 ^ d(load(a, 0))) * mul;
      const uint64_t h1b = (h0 ^ d(load(b, 0))) * mul;
      const uint64_t b1 = inv_d(d(load(a, 8)) ^ h1a ^ h1b);
      std::memcpy(&b[8], &b1, 8);
      auto hash = [](const std::string& w) { return std::hash<std::u8string_view>{ }(std::u8string_view(reinterpret_cast<const char8_t*>(w.data()), w.size())); };
      if (b == a or hash(a) != hash(b)) return "";
      return b;
   }
}

struct PoolBox {
   bool is_lexicon = false;
   ipr::util::string_pool* pool = nullptr;
   ipr::impl::Lexicon* lex = nullptr;
   std::map<std::string, const ipr::String*> model;
   long shadow_used = 0;          // headers consumed in the current arena pool (targeting only)
   bool shadow_valid = true;
   int id = 0;

   const ipr::String& intern(word_view w)
   {
      SutScope s;
      return is_lexicon ? lex->get_string(w) : pool->intern(w);
   }
   void destroy()
   {
      SutScope s;
      delete pool; pool = nullptr;
      delete lex; lex = nullptr;
   }
};

struct Seen {
   int pool_id;
   const ipr::String* node;
   std::string bytes;
};

std::string printable(const std::string& b, size_t max = 24)
{
   std::string s = "\"";
   for (size_t i = 0; i < b.size() and i < max; ++i) {
      unsigned char c = (unsigned char) b[i];
      char t[8];
      std::snprintf(t, sizeof t, c >= 32 and c < 127 and c != '"' and c != '\\' ? "%c" : "\\x%02x", c);
      s += t;
   }
   if (b.size() > max) s += "...";
   return s + "\"(" + std::to_string(b.size()) + ")";
}

struct C03 : Scenario {
   const char* id() const override { return "C03"; }
   const char* title() const override { return "words are interned: one String per distinct byte content, content preserved"; }
   const char* rule() const override
   {
      return "Sequences of get_string / string_pool::intern on 1-3 coexisting pools (standalone pools and pools inside Lexicons, created and destroyed during the run): "
             "lengths 0..40, within +-2 of multiples of 16, around the 65536 over-size threshold and the 1 MiB pool capacity, up to 2.5 MiB; contents over all 256 byte values incl. NUL; "
             "sources that are not NUL-terminated (exact-size heap buffers, so an over-read traps); every reserved spelling reachable through the API and near misses (prefix, suffix, one-byte edit, case); "
             "repeats and equal-length neighbours; fill operations aimed at 'exactly fills the pool' / 'one header too many'; allocation failure injected into intern with retry. "
             "All earlier strings are re-read after every k-th step and at the end. Non-trivial = at least one non-empty, non-reserved word interned.";
   }
   std::vector<std::string> probe_names() const override
   {
      return { "pool.standalone", "pool.lexicon", "interns", "new_words", "repeat_hits", "reserved_words", "near_misses", "empty_word",
               "pool_rollover", "exact_fill", "oversize_path", "granule_boundary", "nul_bytes", "unterminated_source", "full_rereads",
               "pools_coexist", "pool_dropped", "fault.alloc_configured", "fault.alloc_fired_in_intern", "fault.retry_succeeded", "heap.reused_blocks",
               "equal_hash_equal_length_neighbours" };
   }
   std::vector<std::string> assumptions() const override
   {
      return { "the pool capacity constant (65536 headers of 16 bytes) is mirrored from include/ipr/utility for targeting only, never as an oracle",
               "after an injected bad_alloc only 'earlier strings intact' and 'retry succeeds' are asserted" };
   }

   // prologue: deterministic boundary sweeps
   size_t prologue_count(int) const override { return 16; }
   Plan prologue(size_t i, int) const override
   {
      Plan p;
      p.seed = 0xC03 + i;
      p.set("policy", int64_t(i % 4));
      p.set("lexicon", int64_t(i % 2));
      p.set("reread_every", 16);
      auto intern = [&](int cls, int64_t a, int64_t b, int64_t style = 0) {
         Op o; o.code = OpIntern; o.a[0] = 0; o.a[1] = cls; o.a[2] = a; o.a[3] = b; o.a[4] = style; p.ops.push_back(o);
      };
      switch (i) {
      case 0: case 1:   // every length 0..80 with all byte values, then equal-hash equal-length neighbours of every length 16..63
         for (int n = 0; n <= 80; ++n) intern(WRandom, n, 1000 + n, n % 2);
         for (int n = 0; n < 48; ++n) intern(WCollide, n, 77 + n, n % 2);
         break;
      case 2: case 3:   // every reserved word and four near misses of each
         for (int k = 0; k < 64; ++k) { intern(WReserved, k, 0); for (int v = 0; v < 4; ++v) intern(WNearMiss, k, v); }
         break;
      case 4: case 5:   // granule boundaries
         for (int m = 1; m <= 10; ++m) for (int d = -2; d <= 2; ++d) intern(WGranule, m, d + 2, (m + d) % 2);
         break;
      case 6: case 7:   // over-size threshold and pool capacity
         for (int k = 0; k < 8; ++k) intern(WHuge, k + 8 * 9, 7 + k);
         for (int k = 0; k < 8; ++k) intern(WHuge, k + 8 * 9, 7 + k);        // repeats must hit
         break;
      case 12: case 13: case 14: case 15:   // every length within 9 bytes of one capacity boundary, each in a pool of its own history
         for (int d = 0; d < 19; ++d) intern(WHuge, int64_t(i - 12) + 8 * d, 3 + d);
         break;
      case 8: case 9: { // exact fill, then one more header
         Op f; f.code = OpFill; f.a[0] = 0; f.a[1] = 0; p.ops.push_back(f);
         intern(WRandom, 3, 1);
         intern(WRandom, 30, 2);
         Op g; g.code = OpFill; g.a[0] = 0; g.a[1] = 1; p.ops.push_back(g);
         intern(WRandom, 9, 3);
         intern(WRandom, 40, 4);
         break;
      }
      default: {        // several pools, drop one, keep reading the others
         Op n; n.code = OpNewPool; n.a[0] = 1; p.ops.push_back(n);
         Op n2; n2.code = OpNewPool; n2.a[0] = 0; p.ops.push_back(n2);
         for (int k = 0; k < 30; ++k) { Op o; o.code = OpIntern; o.a[0] = k % 3; o.a[1] = k % 2 ? WRandom : WReserved; o.a[2] = 5 + k; o.a[3] = k; p.ops.push_back(o); }
         Op d; d.code = OpDropPool; d.a[0] = 1; p.ops.push_back(d);
         for (int k = 0; k < 10; ++k) { Op o; o.code = OpIntern; o.a[0] = k % 2; o.a[1] = WRepeat; o.a[2] = k; p.ops.push_back(o); }
         break;
      }
      }
      return p;
   }

   size_t search_count(int tier) const override { return tier == 0 ? 9000 : 300000; }

   Plan generate(uint64_t run_seed, int tier) const override
   {
      (void) tier;
      Rng r(run_seed);
      Plan p;
      p.seed = run_seed;
      p.set("policy", int64_t(r.below(4)));
      p.set("lexicon", int64_t(r.below(2)));
      p.set("reread_every", int64_t(r.range(1, 12)));
      const size_t n = size_t(r.range(3, 70));
      const bool faults = r.chance(1, 4);
      int faults_left = faults ? 2 : 0;
      int huge_left = r.chance(1, 5) ? 3 : 0;
      const bool want_fill = r.chance(1, 8);
      for (size_t i = 0; i < n; ++i) {
         Op o;
         const uint64_t roll = r.below(100);
         if (roll < 3) { o.code = OpNewPool; o.a[0] = int64_t(r.below(2)); }
         else if (roll < 5) { o.code = OpDropPool; o.a[0] = int64_t(r.below(3)); }
         else if (roll < 9) { o.code = OpReread; }
         else if (want_fill and roll < 13) { o.code = OpFill; o.a[0] = int64_t(r.below(3)); o.a[1] = int64_t(r.below(3)); }
         else {
            o.code = OpIntern;
            o.a[0] = int64_t(r.below(3));
            int cls = int(r.below(WClassCount));
            if (cls == WHuge and huge_left-- <= 0) cls = WRandom;
            o.a[1] = cls;
            switch (cls) {
            case WRandom: o.a[2] = int64_t(r.chance(1, 10) ? r.below(300) : r.below(41)); o.a[3] = int64_t(r.below(50)); break;
            case WGranule: o.a[2] = int64_t(r.range(1, 12)); o.a[3] = int64_t(r.below(5)); break;
            case WReserved: o.a[2] = int64_t(r.below(64)); break;
            case WNearMiss: o.a[2] = int64_t(r.below(64)); o.a[3] = int64_t(r.below(8)); break;
            case WHuge: o.a[2] = int64_t(r.below(8 * 19)); o.a[3] = int64_t(r.below(4)); break;
            case WRepeat: o.a[2] = int64_t(r.below(64)); break;
            case WNeighbour: o.a[2] = int64_t(r.below(64)); o.a[3] = int64_t(r.below(256)); break;
            case WCollide: o.a[2] = int64_t(16 + r.below(40)); o.a[3] = int64_t(r.below(1000)); break;
            }
            o.a[4] = int64_t(r.below(2));
            if (faults_left > 0 and r.chance(1, 6)) { o.fault = int(r.range(1, 3)); --faults_left; }
         }
         p.ops.push_back(o);
      }
      return p;
   }

   // Build the bytes of a word from the op's integers (and the run's history for repeats).
   static std::string make_word(const Op& o, const std::vector<Reserved>& reserved, const std::vector<Seen>& seen, RunCtx& ctx)
   {
      const int cls = int(((o.a[1] % WClassCount) + WClassCount) % WClassCount);
      Rng r(uint64_t(o.a[3]) * 7919 + uint64_t(o.a[2]) * 104729 + uint64_t(cls));
      auto random_bytes = [&](size_t n) {
         std::string w(n, '\0');
         for (auto& c : w) c = char(r.below(256));
         return w;
      };
      switch (cls) {
      case WRandom: {
         size_t n = size_t(uint64_t(o.a[2]) % 400);
         return random_bytes(n);
      }
      case WGranule: {
         long m = long(uint64_t(o.a[2]) % 64) + 1;
         long d = long(uint64_t(o.a[3]) % 5) - 2;
         ctx.probe(P_granule_boundary);
         // boundaries of the header arithmetic are at n = 8 + 16k
         long n = 8 + 16 * m + d;
         return random_bytes(size_t(n));
      }
      case WReserved:
         ctx.probe(P_reserved);
         return reserved[size_t(uint64_t(o.a[2]) % reserved.size())].spelling;
      case WNearMiss: {
         std::string w = reserved[size_t(uint64_t(o.a[2]) % reserved.size())].spelling;
         ctx.probe(P_near_miss);
         switch (uint64_t(o.a[3]) % 8) {
         case 0: if (w.size() > 1) w.pop_back(); else w += 'x'; break;            // proper prefix
         case 1: w += '_'; break;                                                   // suffix added
         case 2: w[0] = char(w[0] ^ 0x20); break;                                   // case flip of first letter
         case 3: w[w.size() - 1] = char(w[w.size() - 1] + 1); break;                // one-byte edit at the end
         case 4: w = " " + w; break;                                                // leading blank
         case 5: w += '\0'; break;                                                  // trailing NUL
         case 6: w[w.size() / 2] = char(w[w.size() / 2] ^ 0x01); break;             // one-bit edit in the middle
         default: w = w + w; break;                                                 // doubled
         }
         return w;
      }
      case WHuge: {
         // around every capacity boundary, byte by byte: the over-size threshold (65536), a pool's capacity in characters
         // (65536 headers of 16 bytes less the 8-byte length field) and the megabyte itself; a2 = base + 8 * offset
         static const long bases[] = { 65536 - 8, 65536, 1048576 - 8, 1048576, 65519, 2621440, 70001, 300007 };
         const uint64_t a2 = uint64_t(o.a[2]);
         long n = bases[a2 % 8];
         if (a2 % 8 < 4) n += long((a2 / 8) % 19) - 9;
         // deterministic cheap content: varies with a3
         std::string w(size_t(n), char('A' + uint64_t(o.a[3]) % 26));
         for (size_t i = 0; i < w.size(); i += 4093) w[i] = char(i / 4093 + uint64_t(o.a[3]));
         return w;
      }
      case WCollide: {
         size_t n = 16 + size_t(uint64_t(o.a[2]) % 48);
         return random_bytes(n);
      }
      case WRepeat:
         if (seen.empty()) return "first";
         return seen[size_t(uint64_t(o.a[2]) % seen.size())].bytes;
      default: { // WNeighbour: same length as an earlier word, one byte different
         if (seen.empty()) return "neighbour";
         std::string w = seen[size_t(uint64_t(o.a[2]) % seen.size())].bytes;
         if (w.empty()) return "n";
         if (w.size() > 300000) return "n2";
         w[uint64_t(o.a[3]) % w.size()] = char(w[uint64_t(o.a[3]) % w.size()] + 1 + uint64_t(o.a[3]) % 3);
         return w;
      }
      }
   }

   Verdict execute(const Plan& plan, RunCtx& ctx) const override
   {
      std::vector<PoolBox> pools;
      std::vector<Seen> seen;
      int next_pool_id = 0;
      ipr::impl::Lexicon* anchor = nullptr;         // used only to learn the reserved table
      struct Cleanup {
         std::vector<PoolBox>& ps; ipr::impl::Lexicon*& a;
         ~Cleanup() { for (auto& p : ps) p.destroy(); SutScope s; delete a; }
      } cleanup { pools, anchor };
      { SutScope s; anchor = new ipr::impl::Lexicon(); }
      const std::vector<Reserved> reserved = reserved_table(*anchor);
      if (reserved.size() < 50) return Verdict::fail("C03/harness/reserved-table", "reserved table has only " + std::to_string(reserved.size()) + " entries");
      for (auto& r : reserved)
         if (heap::in_arena(r.node)) return Verdict::fail("C03/reserved-not-constant", "reserved word " + printable(r.spelling) + " is represented by an arena node");

      auto new_pool = [&](bool lexicon) {
         PoolBox b;
         b.is_lexicon = lexicon;
         b.id = next_pool_id++;
         SutScope s;
         if (lexicon) b.lex = new ipr::impl::Lexicon(); else b.pool = new ipr::util::string_pool();
         pools.push_back(std::move(b));
         ctx.probe(lexicon ? P_pool_lexicon : P_pool_standalone);
         if (pools.size() > 1) ctx.probe(P_pools_coexist);
      };
      new_pool(plan.get("lexicon", 0) % 2 != 0);

      auto reread_all = [&](size_t step) -> Verdict {
         ctx.probe(P_rereads);
         for (auto& s : seen) {
            auto w = s.node->characters();
            if (w.size() != s.bytes.size() or (w.size() != 0 and std::memcmp(w.data(), s.bytes.data(), w.size()) != 0))
               return Verdict::fail("C03/content-changed", "after step " + std::to_string(step) + ": a String returned earlier for " + printable(s.bytes) +
                                    " now reads " + printable(std::string(reinterpret_cast<const char*>(w.data()), w.size())));
            if (s.node->size() != s.bytes.size())
               return Verdict::fail("C03/size-mismatch", "String::size() disagrees with characters() for " + printable(s.bytes));
         }
         return Verdict::ok();
      };

      // one intern with full oracle; returns the verdict
      auto do_intern = [&](PoolBox& pb, const std::string& word, int style, int fault, size_t step) -> Verdict {
         ctx.probe(P_interns);
         // source buffer of exactly the needed size: not NUL-terminated, view into the middle for style 1
         const size_t off = style % 2 ? 5 : 0;
         std::unique_ptr<char8_t[]> buf(new char8_t[off + word.size() + (word.empty() and off == 0 ? 1 : 0)]);
         if (off) std::memset(buf.get(), 0xAB, off);
         if (not word.empty()) std::memcpy(buf.get() + off, word.data(), word.size());
         if (off) ctx.probe(P_unterminated_src);
         word_view view(buf.get() + off, word.size());
         if (word.find('\0') != std::string::npos) ctx.probe(P_nul_bytes);
         const ipr::String* node = nullptr;
         bool threw = false;
         if (fault > 0) { ctx.probe(P_fault_cfg); heap::arm_fault(uint32_t(fault)); }
         try { node = &pb.intern(view); }
         catch (const std::bad_alloc&) { threw = true; }
         heap::arm_fault(0);
         if (threw) {
            if (not heap::fault_fired()) {
               if (heap::exhausted()) return Verdict::skip("arena exhausted");
               return Verdict::fail("C03/spurious-bad_alloc", "intern threw bad_alloc without an injected fault");
            }
            ctx.probe(P_fault_fired);
            ctx.event("intern pool%d %s -> bad_alloc (injected)", pb.id, printable(word).c_str());
            pb.shadow_valid = false;
            if (Verdict v = reread_all(step); not v) { v.cls += "-after-fault"; return v; }
            // retry must succeed
            try { node = &pb.intern(view); }
            catch (const std::exception& e) { return Verdict::fail("C03/retry-failed", std::string("retry after injected bad_alloc threw: ") + e.what()); }
            ctx.probe(P_fault_retry_ok);
         }
         // content
         auto got = node->characters();
         if (got.size() != word.size() or (not word.empty() and std::memcmp(got.data(), word.data(), word.size()) != 0))
            return Verdict::fail("C03/content", "intern(" + printable(word) + ") returned a String reading " +
                                 printable(std::string(reinterpret_cast<const char*>(got.data()), got.size())));
         // identity
         auto it = pb.model.find(word);
         const bool is_new = it == pb.model.end();
         ctx.event("intern pool%d %s -> %p %s", pb.id, printable(word).c_str(), (const void*) node, is_new ? "new" : "seen");
         if (not is_new) {
            ctx.probe(P_repeat_hits);
            if (it->second != node)
               return Verdict::fail("C03/not-unified", "intern(" + printable(word) + ") returned a second node for equal contents");
         } else {
            for (auto& kv : pb.model)
               if (kv.second == node)
                  return Verdict::fail("C03/aliased", "intern(" + printable(word) + ") returned the node of different contents " + printable(kv.first));
            pb.model.emplace(word, node);
         }
         // constants
         const Reserved* res = nullptr;
         for (auto& r : reserved) if (r.spelling == word) res = &r;
         if (word.empty()) {
            ctx.probe(P_empty);
            if (node != &ipr::String::empty_string())
               return Verdict::fail("C03/empty-not-constant", "the empty word did not map to String::empty_string()");
         } else if (res != nullptr) {
            if (node != res->node)
               return Verdict::fail("C03/reserved-not-constant", "reserved word " + printable(word) + " did not map to its process-wide constant node");
         } else {
            ctx.relevant = true;
            if (&ipr::String::empty_string() == node) return Verdict::fail("C03/aliased", "non-empty word mapped to the empty-string constant");
            for (auto& r : reserved)
               if (r.node == node) return Verdict::fail("C03/lookalike-constant", "word " + printable(word) + " mapped to the constant of reserved word " + printable(r.spelling));
            if (is_new) {
               ctx.probe(P_new_words);
               // shadow of the arena (targeting only)
               const long n = long(word.size());
               const long m = headers_for(n);
               if (m <= headers_per_pool - pb.shadow_used) pb.shadow_used += m;
               else if (n > headers_per_pool) ctx.probe(P_oversize);
               else { pb.shadow_used = m; ctx.probe(P_rollover); }
            }
         }
         if (is_new) seen.push_back({ pb.id, node, word });
         return Verdict::ok();
      };

      const int reread_every = int(std::max<int64_t>(1, plan.get("reread_every", 8)));
      size_t step = 0;
      for (const Op& op : plan.ops) {
         ++step;
         ++ctx.steps;
         heap::begin_op(uint32_t(step));
         switch (((op.code % 5) + 5) % 5) {
         case OpNewPool:
            if (pools.size() < 3) new_pool(op.a[0] % 2 != 0);
            break;
         case OpDropPool:
            if (pools.size() > 1) {
               size_t k = size_t(uint64_t(op.a[0]) % pools.size());
               const int pid = pools[k].id;
               ctx.event("drop pool%d", pid);
               pools[k].destroy();
               pools.erase(pools.begin() + long(k));
               std::vector<Seen> keep;
               for (auto& s : seen) if (s.pool_id != pid) keep.push_back(std::move(s));
               seen.swap(keep);
               ctx.probe(P_pool_dropped);
            }
            break;
         case OpReread:
            if (Verdict v = reread_all(step); not v) return v;
            break;
         case OpFill: {
            PoolBox& pb = pools[size_t(uint64_t(op.a[0]) % pools.size())];
            if (not pb.shadow_valid) break;
            long remaining = headers_per_pool - pb.shadow_used;
            long want = remaining + (long(uint64_t(op.a[1]) % 3) - 1) * (uint64_t(op.a[1]) % 3 == 0 ? 0 : 1);
            // a1 % 3: 0 -> exactly fill, 1 -> remaining headers (same), 2 -> one header too many
            if (uint64_t(op.a[1]) % 3 == 2) want = remaining + 1;
            else want = remaining;
            if (want < 2) want = 2;
            // a word of exactly `want` headers, as long as possible for that count; keep below the over-size threshold
            long n = (want - 1) * 16 + 8;
            if (n > headers_per_pool) {
               // the pool is too empty for a single word below the over-size threshold: first burn space with big words
               int guard = 0;
               while (headers_per_pool - pb.shadow_used > 4000 and guard++ < 40) {
                  std::string big(60000, char('a' + guard));
                  big[0] = char(step); big[1] = char(guard);
                  if (Verdict v = do_intern(pb, big, 0, 0, step); not v) return v;
               }
               remaining = headers_per_pool - pb.shadow_used;
               want = uint64_t(op.a[1]) % 3 == 2 ? remaining + 1 : remaining;
               if (want < 2) want = 2;
               n = (want - 1) * 16 + 8;
            }
            std::string w(size_t(n), 'f');
            w[0] = char(step); w[size_t(n) - 1] = char(0x80 | step);
            const long before = pb.shadow_used;
            if (Verdict v = do_intern(pb, w, 0, 0, step); not v) return v;
            if (want == remaining and pb.shadow_used == headers_per_pool and before != headers_per_pool) ctx.probe(P_exact_fill);
            break;
         }
         default: {
            PoolBox& pb = pools[size_t(uint64_t(op.a[0]) % pools.size())];
            std::string word = make_word(op, reserved, seen, ctx);
            if (Verdict v = do_intern(pb, word, int(op.a[4] & 1), op.fault, step); not v) return v;
            if (((op.a[1] % WClassCount) + WClassCount) % WClassCount == WCollide) {
               // the equal-hash, equal-length partner, interned immediately afterwards
               std::string partner = collide::partner(word);
               if (not partner.empty()) {
                  ctx.probe(P_hash_collisions);
                  if (Verdict v = do_intern(pb, partner, int(op.a[4] & 1), 0, step); not v) return v;
                  // and the first one again, right after its partner
                  if (Verdict v = do_intern(pb, word, 0, 0, step); not v) return v;
               }
            }
            break;
         }
         }
         if (step % size_t(reread_every) == 0)
            if (Verdict v = reread_all(step); not v) return v;
      }
      if (Verdict v = reread_all(step); not v) return v;
      // every word seen in a live pool is requested once more: same node
      for (auto& s : seen) {
         for (auto& pb : pools) {
            if (pb.id != s.pool_id) continue;
            if (s.bytes.size() > 100000) continue;
            const ipr::String& again = pb.intern(word_view(reinterpret_cast<const char8_t*>(s.bytes.data()), s.bytes.size()));
            if (&again != s.node) return Verdict::fail("C03/not-unified", "final re-request of " + printable(s.bytes) + " returned a different node");
         }
      }
      ctx.probe(P_reuse, heap::stats().reused);
      return Verdict::ok();
   }

   std::string describe(const Op& o) const override
   {
      static const char* cls[] = { "random", "granule", "reserved", "near-miss", "huge", "repeat", "neighbour", "hash-collision-pair" };
      switch (((o.code % 5) + 5) % 5) {
      case OpNewPool: return o.a[0] % 2 ? "new-pool(lexicon)" : "new-pool(standalone)";
      case OpDropPool: return "drop-pool(" + std::to_string((long long) o.a[0]) + ")";
      case OpReread: return "reread-all";
      case OpFill: return "fill(pool " + std::to_string((long long) o.a[0]) + ", mode " + std::to_string((long long) (uint64_t(o.a[1]) % 3)) + ")";
      default: {
         std::string s = std::string("intern(pool ") + std::to_string((long long) o.a[0]) + ", " + cls[((o.a[1] % 8) + 8) % 8] + ", " +
            std::to_string((long long) o.a[2]) + ", " + std::to_string((long long) o.a[3]) + (o.a[4] & 1 ? ", unterminated-view" : "") + ")";
         if (o.fault) s += "!alloc#" + std::to_string(o.fault);
         return s;
      }
      }
   }
};

C03 c03;
Registrar reg(&c03);
}

// The warm-up run: once per process, before its first simulated run, with the process-lifetime sub-arena selected.
//
// Every factory and setter of the workload language is called once in a Lexicon of its own, every unit and a sample of
// nodes is printed through every entry point of the printer, a second Lexicon is created next to the first, and both are
// destroyed.  Whatever the library allocates once per process on these paths (a lazily initialised function-local static
// table, say) is thereby allocated in the sub-arena that is never emptied, and not inside a simulated run, where the
// harness would first report it as storage that outlives its Lexicon and then take it away from under the library.
// Nothing is checked here; a library that misbehaves on these calls is reported by the runs themselves.
#include "worldgen.hpp"
#include "../sim/stream.hpp"
#include <ipr/io>
#include <ostream>

namespace {
using namespace props;

void warm_up()
{
   RunCtx ctx;
   WorldOptions wo;
   wo.owner = sim::heap::process_owner;
   wo.check_creation = false;
   wo.track_unification = false;
   for (int variant = 0; variant < 2; ++variant) {
      World w(ctx, wo, "warm-up");
      World other(ctx, wo, "warm-up");
      Plan p = every_op_once(0, OP_COUNT, variant);
      for (const Op& op : p.ops) {
         if (op.code == OP_get_string_huge) continue;
         w.apply(op);
         if (op.code % 7 == 0) other.apply(op);
      }
      sim::SimStreambuf buf;
      std::ostream os(&buf);
      auto quietly = [&](auto f) {
         try { sim::SutScope s; ipr::Printer pp(*w.lex, os); f(pp); }
         catch (...) { sim::g_sut_depth = 0; }
         sim::HarnessScope h;
         buf.data.clear();
         os.clear();
      };
      for (auto u : w.units.v) { const ipr::Translation_unit& ui = *u; quietly([&](ipr::Printer& pp) { pp << ui; }); }
      size_t printed = 0;
      for (Ref r : w.order) {
         const Rec& rc = w.recs[r];
         if (rc.exp.cat < 0 or w.print_weight(r) > 2000 or ++printed > 400) continue;
         const ipr::Node& n = *static_cast<const ipr::Node*>(r);
         struct Pick : ipr::Constant_visitor<ipr::No_op> {
            const ipr::Expr* e = nullptr; const ipr::Type* t = nullptr;
            void visit(const ipr::Expr& x) override { e = &x; }
            void visit(const ipr::Type& x) override { e = &x; t = &x; }
            void visit(const ipr::Stmt& x) override { e = &x; }
            void visit(const ipr::Decl& x) override { e = &x; }
            void visit(const ipr::Directive& x) override { e = &x; }
         } k;
         n.accept(k);
         if (k.e == nullptr) continue;
         quietly([&](ipr::Printer& pp) { pp << ipr::xpr_expr(*k.e); });
         quietly([&](ipr::Printer& pp) { pp << ipr::xpr_stmt(*k.e); });
         quietly([&](ipr::Printer& pp) { pp << ipr::xpr_decl(*k.e, true); });
         if (k.t) quietly([&](ipr::Printer& pp) { pp << ipr::xpr_type(*k.t); });
      }
   }
}

struct Install { Install() { sim::set_warm_up(&warm_up); } } install;
}

// Properties about several Lexicon instances, their lifetimes and their isolation:
// C13 (constants are process-wide), C19 (destruction frees everything; no dead storage is
// touched), C20 (Lexicons are isolated; layer 3 with real threads is C20T in the tsan flavour).
#include "worldgen.hpp"
#include "../sim/stream.hpp"
#include "../sim/statics.hpp"
#include <ipr/io>
#include <ipr/traversal>
#include <memory>
#include <thread>
#include <atomic>
#include <cstring>

namespace {
using namespace props;

// lifecycle opcodes live above the world's opcode table
enum LifeOp : int { LIFE_NEW = OP_COUNT + 1, LIFE_DROP = OP_COUNT + 2, LIFE_BATTERY = OP_COUNT + 3, LIFE_PRINT = OP_COUNT + 4, LIFE_LAST = OP_COUNT + 5 };

int life_code(const Op& o) { return o.code > OP_COUNT and o.code < LIFE_LAST ? o.code : -1; }

std::string describe_life(const Op& o)
{
   switch (life_code(o)) {
   case LIFE_NEW: return "new-lexicon@c" + std::to_string(o.client);
   case LIFE_DROP: return "destroy-lexicon@c" + std::to_string(o.client);
   case LIFE_BATTERY: return "constant-battery@c" + std::to_string(o.client);
   case LIFE_PRINT: return "print-units@c" + std::to_string(o.client);
   default: return describe_op(o);
   }
}

std::vector<OpWeight> use_table()
{
   std::vector<OpWeight> t;
   for (int c = 0; c < OP_noise_alloc; ++c) t.push_back({ c, c >= OP_get_string and c < OP_make_phantom ? 4 : 1 });
   t.push_back({ OP_noise_alloc, 12 });
   t.push_back({ OP_noise_free, 8 });
   t.push_back({ OP_get_string_huge, 3 });
   for (int c = OP_macro_var; c < OP_COUNT; ++c) t.push_back({ c, 3 });
   return t;
}

int pick_code(Rng& r, const std::vector<OpWeight>& table)
{
   int total = 0;
   for (auto& w : table) total += w.weight;
   int x = int(r.below(uint64_t(total)));
   for (auto& w : table) { if (x < w.weight) return w.code; x -= w.weight; }
   return table.back().code;
}

// Print every unit of a world on a simulated stream; returns a hash of the bytes (and outcome).
uint64_t print_world(World& w, uint64_t style, RunCtx* ctx)
{
   sim::Digest d;
   for (auto u : w.units.v) {
      const ipr::Translation_unit& ui = *u;
      sim::SimStreambuf buf;
      std::ostream os(&buf);
      sim::apply_style(os, style);
      int outcome = 0;
      try {
         sim::SutScope s;
         ipr::Printer pp(*w.lex, os);
         pp.print_locations = true;
         pp << ui;
      }
      catch (const std::logic_error&) { outcome = 1; }
      d.bytes(buf.data.data(), buf.data.size());
      d.u64(uint64_t(outcome));
      if (ctx) ++ctx->steps;
   }
   return d.value();
}

// ================================================================================== C13
enum P13 { A_lexicons_created, A_lexicons_destroyed, A_batteries, A_accessor_reads, A_route_checks, A_use_ops, A_coexisting, A_recreated_in_place, A_reuse, A_pol_lifo, A_count };

struct ConstantSet {
   std::vector<Ref> refs;           // 26 types, auto, 5 symbols, nullptr type, 2 linkages, natural transfer
};

const char* const type_spellings[] = { "void", "bool", "char", "signed char", "unsigned char", "wchar_t", "char8_t", "char16_t", "char32_t",
                                       "short", "unsigned short", "int", "unsigned int", "long", "unsigned long", "long long", "unsigned long long",
                                       "float", "double", "long double", "...", "typename", "class", "union", "enum", "namespace" };
const char* const symbol_spellings[] = { "false", "true", "nullptr", "default", "delete" };

std::vector<const ipr::Type*> type_accessors(const ipr::Lexicon& L)
{
   return { &L.void_type(), &L.bool_type(), &L.char_type(), &L.schar_type(), &L.uchar_type(), &L.wchar_t_type(), &L.char8_t_type(), &L.char16_t_type(),
            &L.char32_t_type(), &L.short_type(), &L.ushort_type(), &L.int_type(), &L.uint_type(), &L.long_type(), &L.ulong_type(), &L.long_long_type(),
            &L.ulong_long_type(), &L.float_type(), &L.double_type(), &L.long_double_type(), &L.ellipsis_type(), &L.typename_type(), &L.class_type(),
            &L.union_type(), &L.enum_type(), &L.namespace_type() };
}

std::string spelling_of(const ipr::Name& n)
{
   auto id = ipr::util::view<ipr::Identifier>(n);
   if (id == nullptr) return "<not an identifier>";
   auto w = id->string().characters();
   return std::string(reinterpret_cast<const char*>(w.data()), w.size());
}

std::string chars(const ipr::String& s)
{
   auto w = s.characters();
   return std::string(reinterpret_cast<const char*>(w.data()), w.size());
}

Verdict constant_battery(World& w, std::vector<Ref>& history, RunCtx& ctx)
{
   const ipr::Lexicon& L = *w.lex;
   impl::Lexicon& X = *w.lex;
   const std::string tag = "C13";
   auto types = type_accessors(L);
   std::vector<Ref> now;
   ctx.probe(A_batteries);
   for (size_t i = 0; i < types.size(); ++i) {
      const ipr::Type& t = *types[i];
      ctx.probe(A_accessor_reads);
      now.push_back(nref(t));
      if (not sim::heap::is_static(&t)) return Verdict::fail(tag + "/not-process-wide/" + type_spellings[i], std::string("built-in type '") + type_spellings[i] + "' is not a static constant");
      for (size_t j = 0; j < i; ++j)
         if (nref(*types[j]) == nref(t)) return Verdict::fail(tag + "/accessors-alias", std::string("the accessors for '") + type_spellings[j] + "' and '" + type_spellings[i] + "' return the same node");
      const std::string sp = spelling_of(t.name());
      if (sp != type_spellings[i]) return Verdict::fail(tag + "/spelling/" + type_spellings[i], std::string("built-in type '") + type_spellings[i] + "' names itself '" + sp + "'");
      auto as = ipr::util::view<ipr::As_type>(t);
      if (as == nullptr or nref(as->expr()) != nref(t)) return Verdict::fail(tag + "/self-expression/" + type_spellings[i], "a built-in type is not its own underlying expression");
      if (nref(t.type()) != nref(L.typename_type())) return Verdict::fail(tag + "/type-of-type/" + type_spellings[i], "a built-in type does not have type `typename`");
      if (chars(t.transfer().linkage().language().what()) != "C++" or chars(t.transfer().convention().name().what()) != "")
         return Verdict::fail(tag + "/transfer/" + type_spellings[i], "a built-in type does not have the natural C++ transfer");
      if (nref(t.linkage().language().what()) != nref(L.cxx_linkage().language().what())) return Verdict::fail(tag + "/transfer/" + type_spellings[i], "a built-in type's linkage is not C++");
   }
   const ipr::Symbol* syms[] = { &L.false_value(), &L.true_value(), &L.nullptr_value(), &L.default_value(), &L.delete_value() };
   for (size_t i = 0; i < 5; ++i) {
      ctx.probe(A_accessor_reads);
      now.push_back(nref(*syms[i]));
      if (not sim::heap::is_static(syms[i])) return Verdict::fail(tag + "/not-process-wide/" + symbol_spellings[i], "a symbolic constant is not a static constant");
      for (size_t j = 0; j < i; ++j) if (syms[j] == syms[i]) return Verdict::fail(tag + "/accessors-alias", "two symbolic constants are the same node");
      if (spelling_of(syms[i]->name()) != symbol_spellings[i]) return Verdict::fail(tag + "/spelling/" + symbol_spellings[i], std::string("constant '") + symbol_spellings[i] + "' is spelled '" + spelling_of(syms[i]->name()) + "'");
   }
   if (nref(L.false_value().type()) != nref(L.bool_type()) or nref(L.true_value().type()) != nref(L.bool_type())) return Verdict::fail(tag + "/constant-type/bool", "a truth value does not have type bool");
   if (nref(L.delete_value().type()) != nref(L.void_type())) return Verdict::fail(tag + "/constant-type/delete", "the deleted-definition constant does not have type void");
   {
      auto dt = ipr::util::view<ipr::Decltype>(L.nullptr_value().type());
      if (dt == nullptr or nref(dt->expr()) != nref(L.nullptr_value())) return Verdict::fail(tag + "/constant-type/nullptr", "nullptr does not have type decltype(nullptr)");
      now.push_back(nref(*dt));
      if (nref(dt->type()) != nref(L.typename_type())) return Verdict::fail(tag + "/constant-type/nullptr", "decltype(nullptr) does not have type typename");
      const ipr::Type& au = L.default_value().type();
      now.push_back(nref(au));
      if (spelling_of(au.name()) != "auto") return Verdict::fail(tag + "/constant-type/default", "the `default` constant is not typed `auto`");
   }
   now.push_back(&L.cxx_linkage());
   now.push_back(&L.c_linkage());
   if (&L.cxx_linkage() == &L.c_linkage() or L.cxx_linkage() == L.c_linkage()) return Verdict::fail(tag + "/linkages-alias", "the C and C++ linkages are not distinct");
   if (chars(L.cxx_linkage().language().what()) != "C++" or chars(L.c_linkage().language().what()) != "C") return Verdict::fail(tag + "/spelling/linkage", "a standard linkage is misspelled");
   if (not sim::heap::is_static(&L.cxx_linkage()) or not sim::heap::is_static(&L.c_linkage())) return Verdict::fail(tag + "/not-process-wide/linkage", "a standard linkage is not a static constant");
   // every Lexicon, at every time, returns the same nodes
   if (history.empty()) history = now;
   else if (history != now) {
      for (size_t i = 0; i < now.size() and i < history.size(); ++i)
         if (history[i] != now[i]) return Verdict::fail(tag + "/differs-between-lexicons", "constant #" + std::to_string(i) + " is " + ref_str(now[i]) + " here and was " + ref_str(history[i]) + " in an earlier reading");
   }
   // routes from spellings to the constants
   for (size_t i = 0; i < types.size(); ++i) {
      ctx.probe(A_route_checks);
      const std::u8string w8(reinterpret_cast<const char8_t*>(type_spellings[i]));
      const ipr::Identifier* id; const ipr::As_type* t; const ipr::String* s;
      { sim::SutScope sc; id = &X.get_identifier(ipr::util::word_view(w8)); t = &X.get_as_type(*id); s = &X.get_string(w8); }
      if (nref(*t) != nref(*types[i])) return Verdict::fail(tag + "/route/as-type/" + type_spellings[i], std::string("get_as_type(get_identifier(\"") + type_spellings[i] + "\")) is a look-alike, not the built-in type");
      if (nref(*id) != nref(types[i]->name())) return Verdict::fail(tag + "/route/identifier/" + type_spellings[i], std::string("get_identifier(\"") + type_spellings[i] + "\") is not the name of the built-in type");
      if (auto bid = ipr::util::view<ipr::Identifier>(types[i]->name()); bid == nullptr or nref(bid->string()) != nref(*s)) return Verdict::fail(tag + "/route/string/" + type_spellings[i], "get_string of a built-in's spelling is not the constant String");
   }
   {
      ctx.probe(A_route_checks, 6);
      const ipr::Linkage *a, *b, *c, *d; const ipr::Symbol* lab; const ipr::Decltype* dt; const ipr::As_type* au;
      {
         sim::SutScope sc;
         a = &X.get_linkage(u8"C"); b = &X.get_linkage(X.get_string(u8"C")); c = &X.get_linkage(u8"C++"); d = &X.get_linkage(X.get_string(u8"C++"));
         lab = &X.get_label(X.get_identifier(u8"default"));
         dt = &X.get_decltype(L.nullptr_value());
         au = &X.get_as_type(X.get_identifier(u8"auto"));
      }
      if (a != &L.c_linkage() or b != &L.c_linkage()) return Verdict::fail(tag + "/route/linkage/C", "get_linkage(\"C\") is not Lexicon::c_linkage()");
      if (c != &L.cxx_linkage() or d != &L.cxx_linkage()) return Verdict::fail(tag + "/route/linkage/C++", "get_linkage(\"C++\") is not Lexicon::cxx_linkage()");
      if (nref(*lab) != nref(L.default_value())) return Verdict::fail(tag + "/route/label-default", "get_label(get_identifier(\"default\")) is not Lexicon::default_value()");
      if (nref(*dt) != nref(L.nullptr_value().type())) return Verdict::fail(tag + "/route/decltype-nullptr", "get_decltype(nullptr_value()) is not nullptr_value().type()");
      if (nref(*au) != nref(L.default_value().type())) return Verdict::fail(tag + "/route/as-type/auto", "get_as_type(get_identifier(\"auto\")) is not the type of default_value()");
   }
   return Verdict::ok();
}

struct C13 : Scenario {
   const char* id() const override { return "C13"; }
   const char* title() const override { return "Lexicon constants are distinct, correctly spelled, self-describing, process-wide"; }
   const char* rule() const override
   {
      return "A lifecycle client creates, uses, destroys and re-creates up to four Lexicons in an interleaved fashion (sub-arena per slot; under the lifo policy a new Lexicon lands where an old one was). At random moments of every client's history "
             "a constant battery is evaluated: the 26 type accessors are pairwise distinct, name themselves with the documented spelling, are their own expression, have type typename and natural transfer; the five symbolic constants and "
             "two linkages are distinct, spelled and typed as stated; all of them are static (inside the executable image) and identical to every earlier reading by any Lexicon of the run; routes evaluated at the same moments: "
             "spelling -> get_identifier -> get_as_type gives the accessor's node (27 spellings incl. auto), word and String -> get_linkage give the constants, get_label(get_identifier(\"default\")) is default_value(), "
             "get_decltype(nullptr_value()) is nullptr_value().type(). The pairwise-distinct/spelling part is stateless and rides along; the simulated dimensions are instance lifetime and history. Non-trivial = at least one battery evaluated.";
   }
   std::vector<std::string> probe_names() const override
   {
      return { "lexicons_created", "lexicons_destroyed", "batteries", "accessor_reads", "route_checks", "use_ops", "lexicons_coexisting", "lexicon_recreated_in_place", "heap.reused_blocks", "heap.lifo_runs" };
   }
   std::vector<std::string> assumptions() const override { return { "'static' means: inside the executable image (the library is linked statically into the simulator)" }; }
   size_t search_count(int tier) const override { return tier == 0 ? 4000 : 120000; }
   size_t prologue_count(int) const override { return 4; }
   Plan prologue(size_t i, int) const override
   {
      Plan p;
      p.seed = 0xC1300 + i;
      p.set("policy", int64_t(i));
      for (int round = 0; round < 3; ++round)
         for (int c = 0; c < 3; ++c) {
            Op n; n.code = LIFE_NEW; n.client = c; p.ops.push_back(n);
            Op b; b.code = LIFE_BATTERY; b.client = c; p.ops.push_back(b);
            for (int k = 0; k < 10; ++k) { Op u; u.code = OP_get_identifier_w + (k % 8); u.client = c; u.a[0] = 14 + k + round; u.a[1] = 0; p.ops.push_back(u); }
            Op b2; b2.code = LIFE_BATTERY; b2.client = c; p.ops.push_back(b2);
            if (c != 1 or round == 2) { Op d; d.code = LIFE_DROP; d.client = (c + round) % 3; p.ops.push_back(d); }
         }
      return p;
   }
   Plan generate(uint64_t run_seed, int) const override
   {
      Rng r(run_seed);
      Plan p;
      p.seed = run_seed;
      p.set("policy", int64_t(r.chance(1, 2) ? 3 : r.below(4)));
      const size_t n = size_t(r.range(10, 90));
      auto table = use_table();
      const int range = int(r.range(3, 30));
      for (size_t i = 0; i < n; ++i) {
         Op o;
         o.client = int(r.below(4));
         const uint64_t roll = r.below(100);
         if (roll < 8) o.code = LIFE_NEW;
         else if (roll < 14) o.code = LIFE_DROP;
         else if (roll < 30) o.code = LIFE_BATTERY;
         else { o.code = pick_code(r, table); for (auto& a : o.a) a = int64_t(r.below(uint64_t(range))); }
         p.ops.push_back(o);
      }
      return p;
   }
   Verdict execute(const Plan& plan, RunCtx& ctx) const override
   {
      std::unique_ptr<World> slot[4];
      std::vector<Ref> history;
      bool was_used[4] = { };
      if (uint64_t(plan.get("policy", 0)) % 4 == 3) ctx.probe(A_pol_lifo);
      WorldOptions wo;
      wo.check_creation = false;
      wo.track_unification = false;
      auto ensure = [&](int c) {
         if (slot[c]) return;
         wo.owner = c;
         slot[c] = std::make_unique<World>(ctx, wo, "C13");
         ctx.probe(A_lexicons_created);
         if (was_used[c]) ctx.probe(A_recreated_in_place);
         was_used[c] = true;
         int live = 0;
         for (auto& s : slot) if (s) ++live;
         if (live > 1) ctx.probe(A_coexisting);
      };
      for (const Op& op : plan.ops) {
         const int c = ((op.client % 4) + 4) % 4;
         ++ctx.steps;
         switch (life_code(op)) {
         case LIFE_NEW: ensure(c); break;
         case LIFE_DROP: if (slot[c]) { slot[c].reset(); ctx.probe(A_lexicons_destroyed); ctx.event("destroy lexicon %d", c); } break;
         case LIFE_BATTERY:
            ensure(c);
            ctx.relevant = true;
            ctx.event("battery on lexicon %d", c);
            if (Verdict v = constant_battery(*slot[c], history, ctx); not v) return v;
            break;
         case LIFE_PRINT: break;
         default:
            ensure(c);
            slot[c]->apply(op);
            ctx.probe(A_use_ops);
            if (slot[c]->failed()) return slot[c]->verdict;
            break;
         }
      }
      // closing battery on every Lexicon still alive
      for (int c = 0; c < 4; ++c)
         if (slot[c]) { ctx.relevant = true; if (Verdict v = constant_battery(*slot[c], history, ctx); not v) return v; }
      ctx.probe(A_reuse, sim::heap::stats().reused);
      return Verdict::ok();
   }
   std::string describe(const Op& o) const override { return describe_life(o); }
};

// ================================================================================== C19
enum P19 { B_lexicons_destroyed, B_leak_checks, B_ops, B_prints, B_units, B_modules, B_fault_cfg, B_fault_fired, B_fault_enum_histories, B_fault_enum_points,
           B_leaked_after_fault, B_rechecks_after_fault, B_reuse, B_recreated_in_place, B_peak_live, B_count };

struct LeakReport { bool leaked = false; std::string cls, detail; size_t blocks = 0; };

// Blocks of this sub-arena that were allocated after `since` (the birth of the Lexicon being destroyed) and are still live.
LeakReport leak_check(int owner, const std::vector<int>& step_codes, uint64_t since)
{
   LeakReport r;
   const size_t total = sim::heap::live_count(owner);
   if (total == 0) return r;
   std::vector<sim::heap::LiveInfo> info(total);
   const size_t got = sim::heap::live_blocks(info.data(), info.size(), owner);
   // attribute to the earliest allocating operation (stable under shrinking)
   uint32_t first_op = UINT32_MAX;
   uint64_t bytes = 0;
   size_t n = 0;
   for (size_t i = 0; i < got; ++i) {
      if (info[i].serial <= since) continue;       // left behind by an earlier Lexicon (only possible after an injected failure there)
      ++n;
      first_op = std::min(first_op, info[i].op);
      bytes += info[i].size;
   }
   if (n == 0) return r;
   r.leaked = true;
   r.blocks = n;
   const int code = first_op < step_codes.size() ? step_codes[first_op] : -1;
   const std::string maker = first_op == 0 ? "lexicon-construction" : (code >= 0 ? op_name(code) : "unknown-step");
   r.cls = "C19/leak/" + maker;
   r.detail = std::to_string(n) + " block(s) (" + std::to_string((unsigned long long) bytes) + " bytes) allocated on behalf of the Lexicon survive its destruction; earliest allocated by " + maker +
              " at step " + std::to_string(first_op);
   return r;
}

struct C19 : Scenario {
   const char* id() const override { return "C19"; }
   const char* title() const override { return "destroying a Lexicon frees all its memory; live use never touches dead storage"; }
   const char* rule() const override
   {
      return "The full workload (all factories, declarations, setters, printing) on up to four Lexicons with units and modules, each in its own sub-arena, destroyed in the order the language prescribes (units and modules before their Lexicon) "
             "at random moments and re-created, so that under the lifo policy a new Lexicon reuses the storage of a dead one (a stale pointer into a dead Lexicon would alias a live node; freed blocks are poisoned until reused). "
             "Oracle: after each destruction the simulated heap's live set for that sub-arena is empty (a surviving block is reported with the operation that allocated it: deterministic, more precise than LeakSanitizer); no sanitizer report at any step. "
             "Fault enumeration sub-runs: for sampled histories every allocation index of every operation is failed in turn (one fault per re-execution); after the failed operation every earlier object is re-observed; the verdict uses memory safety and "
             "'earlier results intact', and the Lexicon's later destruction is held to the same leak oracle (class suffix /after-bad_alloc). Non-trivial = at least one Lexicon destroyed after use.";
   }
   std::vector<std::string> probe_names() const override
   {
      return { "lexicons_destroyed", "leak_checks", "ops", "prints", "units", "modules", "fault.alloc_configured", "fault.alloc_fired", "fault.enumerated_histories", "fault.enumerated_allocation_points",
               "opt.blocks_leaked_in_histories_with_an_injected_failure", "rechecks_after_fault", "heap.reused_blocks", "lexicon_recreated_in_place", "opt.peak_live_blocks" };
   }
   std::vector<std::string> assumptions() const override
   {
      return { "objects the harness itself places in the arena on the library's behalf (units, modules, tokens, side factories, sequences kept by reference) are destroyed by the harness before the leak check",
               "after an injected bad_alloc the harness releases what it had itself placed in the arena for the interrupted call (a Warehouse, a unit under construction); every other block is the library's" };
   }
   size_t prologue_count(int) const override { return 4; }
   Plan prologue(size_t i, int) const override
   {
      // every opcode once on a Lexicon, print, destroy; twice in the same slot
      Plan p;
      p.seed = 0xC1900 + i;
      p.set("policy", int64_t(i));
      for (int round = 0; round < 2; ++round) {
         Op n; n.code = LIFE_NEW; p.ops.push_back(n);
         Op u; u.code = OP_new_unit; p.ops.push_back(u);
         Op mo; mo.code = OP_new_module; p.ops.push_back(mo);
         for (int pass = 0; pass < 2; ++pass)
            for (int c = 0; c < OP_noise_alloc; ++c) { Op o; o.code = c; for (int k = 0; k < 6; ++k) o.a[k] = int64_t(1 + i + size_t(pass) * 3 + size_t(2 * k) + size_t(c % 7)); p.ops.push_back(o); }
         Op pr; pr.code = LIFE_PRINT; p.ops.push_back(pr);
         Op d; d.code = LIFE_DROP; p.ops.push_back(d);
      }
      return p;
   }
   size_t search_count(int tier) const override { return tier == 0 ? 3000 : 100000; }
   Plan generate(uint64_t run_seed, int) const override
   {
      Rng r(run_seed);
      Plan p;
      p.seed = run_seed;
      p.set("policy", int64_t(r.chance(1, 2) ? 3 : r.below(4)));
      const bool enumerate = r.chance(1, 12);
      p.set("enumerate", enumerate);
      const size_t n = enumerate ? size_t(r.range(8, 60)) : size_t(r.range(20, 200));
      auto table = use_table();
      const int range = int(r.range(3, 30));
      int faults_left = (not enumerate and r.chance(1, 4)) ? 2 : 0;
      for (size_t i = 0; i < n; ++i) {
         Op o;
         o.client = enumerate ? 0 : int(r.below(4));
         const uint64_t roll = r.below(100);
         if (roll < 5) o.code = LIFE_NEW;
         else if (roll < 11 and not enumerate) o.code = LIFE_DROP;
         else if (roll < 16) o.code = LIFE_PRINT;
         else {
            o.code = pick_code(r, table);
            for (auto& a : o.a) a = int64_t(r.below(uint64_t(range)));
            if (faults_left > 0 and r.chance(1, 15)) { o.fault = int(r.range(1, 3)); --faults_left; }
         }
         p.ops.push_back(o);
      }
      return p;
   }

   // one pass over the plan; fault_at >= 0: fail allocation `fault_k` of op index `fault_at` (enumeration)
   Verdict run_once(const Plan& plan, RunCtx& ctx, long fault_at, int fault_k, std::vector<uint32_t>* alloc_counts) const
   {
      std::unique_ptr<World> slot[4];
      bool was_used[4] = { };
      bool faulted_world[4] = { };
      uint64_t born_serial[4] = { };
      WorldOptions wo;
      wo.check_creation = false;
      wo.track_unification = false;
      auto ensure = [&](int c) {
         if (slot[c]) return;
         wo.owner = c;
         born_serial[c] = sim::heap::serial();
         slot[c] = std::make_unique<World>(ctx, wo, "C19");
         if (was_used[c]) ctx.probe(B_recreated_in_place);
         was_used[c] = true;
         faulted_world[c] = false;
      };
      auto destroy = [&](int c) -> Verdict {
         if (not slot[c]) return Verdict::ok();
         const std::vector<int> codes = slot[c]->step_codes;
         ctx.probe(B_units, slot[c]->units.size());
         ctx.probe(B_modules, slot[c]->modules.size());
         const bool had_fault = faulted_world[c] or slot[c]->faults_fired > 0;
         slot[c].reset();
         ctx.probe(B_lexicons_destroyed);
         ctx.probe(B_leak_checks);
         ctx.relevant = true;
         LeakReport lr = leak_check(c, codes, born_serial[c]);
         ctx.event("destroy lexicon %d -> %zu live blocks", c, lr.blocks);
         if (lr.leaked) {
            // A history in which a factory call ended in std::bad_alloc is a construction history like any other: what was
            // allocated on the Lexicon's behalf before, during and after it is returned when the Lexicon is destroyed.
            if (had_fault) { ctx.probe(B_leaked_after_fault, lr.blocks); return Verdict::fail(lr.cls + "/after-bad_alloc", lr.detail + " (an earlier operation of this history ended in an injected std::bad_alloc)"); }
            return Verdict::fail(lr.cls, lr.detail);
         }
         return Verdict::ok();
      };
      long index = -1;
      for (const Op& op0 : plan.ops) {
         ++index;
         Op op = op0;
         const int c = ((op.client % 4) + 4) % 4;
         if (fault_at >= 0) op.fault = index == fault_at ? fault_k : 0;
         switch (life_code(op)) {
         case LIFE_NEW: ensure(c); ++ctx.steps; break;
         case LIFE_DROP: ++ctx.steps; if (Verdict v = destroy(c); not v) return v; break;
         case LIFE_PRINT: ensure(c); sim::heap::set_owner(c); print_world(*slot[c], uint64_t(op.a[0]), &ctx); ctx.probe(B_prints); break;
         case LIFE_BATTERY: break;
         default: {
            ensure(c);
            World& w = *slot[c];
            w.apply(op);
            ctx.probe(B_ops);
            if (alloc_counts) alloc_counts->push_back(sim::heap::op_allocs());
            if (w.failed()) return w.verdict;
            if (w.last_op_faulted) {
               faulted_world[c] = true;
               ctx.probe(B_rechecks_after_fault);
               // earlier results intact
               if (Verdict v = w.recheck_all(); not v) { v.cls = "C19/earlier-object-disturbed-by-failed-op/" + std::string(op_name(op.code)); return v; }
            }
            break;
         }
         }
         if (alloc_counts and life_code(op) >= 0) alloc_counts->push_back(0);
      }
      for (int c = 0; c < 4; ++c)
         if (Verdict v = destroy(c); not v) return v;
      return Verdict::ok();
   }

   Verdict execute(const Plan& plan, RunCtx& ctx) const override
   {
      if (plan.get("enumerate", 0) == 0) {
         Verdict v = run_once(plan, ctx, -1, 0, nullptr);
         size_t cfgd = 0;
         for (auto& o : plan.ops) if (o.fault) ++cfgd;
         ctx.probe(B_fault_cfg, cfgd);
         ctx.probe(B_fault_fired, sim::heap::stats().faults_fired);
         ctx.probe(B_reuse, sim::heap::stats().reused);
         return v;
      }
      // fault enumeration: dry run to learn how many allocations each operation makes, then fail each in turn
      std::vector<uint32_t> counts;
      if (Verdict v = run_once(plan, ctx, -1, 0, &counts); not v) return v;
      ctx.probe(B_fault_enum_histories);
      size_t points = 0;
      for (size_t j = 0; j < counts.size() and j < plan.ops.size(); ++j) {
         for (uint32_t k = 1; k <= counts[j] and k <= 12; ++k) {
            ++points;
            if (points > 400) break;
            ctx.probe(B_fault_cfg);
            const uint64_t before = sim::heap::stats().faults_fired;
            if (Verdict v = run_once(plan, ctx, long(j), int(k), nullptr); not v) { v.detail = "with allocation #" + std::to_string(k) + " of operation " + std::to_string(j) + " failed: " + v.detail; return v; }
            if (sim::heap::stats().faults_fired > before) ctx.probe(B_fault_fired);
         }
      }
      ctx.probe(B_fault_enum_points, points);
      return Verdict::ok();
   }
   std::string describe(const Op& o) const override { return describe_life(o); }
};

// ================================================================================== C20 (layers 1 and 2)
enum P20 { D_clients, D_ops, D_interleaved_switches, D_trace_points, D_solo_runs, D_address_checks, D_static_symbols, D_static_snapshots, D_tls_symbols, D_prints, D_destroy_recreate,
           D_both_alive_at_print, D_threads, D_thread_runs, D_count };

struct Trace {
   std::vector<uint64_t> points;
   void add(uint64_t v) { points.push_back(v); }
};

// Execute the operations of one client on its world and record its trace.
struct ClientRun {
   std::unique_ptr<World> w;
   Trace trace;
   int owner = 0;
   RunCtx* ctx = nullptr;
   WorldOptions wo;
   uint64_t nops = 0;
   bool check_ownership = false;
   std::string problem;

   void ensure()
   {
      if (w) return;
      wo.owner = owner;
      wo.check_creation = false;
      wo.track_unification = false;
      w = std::make_unique<World>(*ctx, wo, "C20");
   }
   void step(const Op& op)
   {
      switch (life_code(op)) {
      case LIFE_NEW: ensure(); trace.add(1); break;
      case LIFE_DROP: if (w) { trace.add(w->graph_digest()); w.reset(); } trace.add(2); break;
      case LIFE_PRINT: ensure(); sim::heap::set_owner(owner); trace.add(print_world(*w, uint64_t(op.a[0]), nullptr)); break;
      case LIFE_BATTERY: break;
      default: {
         ensure();
         Ref r = w->apply(op);
         ++nops;
         trace.add(r == nullptr ? 0 : 3);
         if (check_ownership and r != nullptr and sim::heap::in_arena(r) and sim::heap::owner_of(r) != owner and problem.empty())
            problem = std::string(op_name(op.code)) + " returned " + ref_str(r) + ", which lies in the sub-arena of client " + std::to_string(sim::heap::owner_of(r));
         if (nops % 8 == 0) trace.add(w->graph_digest());
         break;
      }
      }
   }
   void finish() { if (w) { trace.add(w->graph_digest()); trace.add(print_world(*w, 0, nullptr)); } }
};

Plan generate_clients(uint64_t run_seed, int max_clients)
{
   Rng r(run_seed);
   Plan p;
   p.seed = run_seed;
   p.set("policy", int64_t(r.below(4)));
   const int nclients = int(r.range(2, max_clients));
   p.set("clients", nclients);
   auto table = use_table();
   std::vector<std::vector<Op>> progs(static_cast<size_t>(nclients));
   for (int c = 0; c < nclients; ++c) {
      const size_t n = size_t(r.range(10, 80));
      const int range = int(r.range(3, 25));
      for (size_t i = 0; i < n; ++i) {
         Op o;
         o.client = c;
         const uint64_t roll = r.below(100);
         if (roll < 3) o.code = LIFE_DROP;
         else if (roll < 6) o.code = LIFE_NEW;
         else if (roll < 12) { o.code = LIFE_PRINT; o.a[0] = int64_t(r.below(8)); }
         else { o.code = pick_code(r, table); for (auto& a : o.a) a = int64_t(r.below(uint64_t(range))); }
         progs[size_t(c)].push_back(o);
      }
   }
   // the scheduler's interleaving: pick a runnable client with the PRNG, let it execute exactly one operation
   std::vector<size_t> pc(static_cast<size_t>(nclients), 0);
   size_t remaining = 0;
   for (auto& pr : progs) remaining += pr.size();
   while (remaining > 0) {
      int c = int(r.below(uint64_t(nclients)));
      while (pc[size_t(c)] >= progs[size_t(c)].size()) c = (c + 1) % nclients;
      // bursts make long single-client stretches as likely as fine-grained alternation
      size_t burst = r.chance(1, 3) ? size_t(r.range(2, 12)) : 1;
      while (burst-- > 0 and pc[size_t(c)] < progs[size_t(c)].size()) { p.ops.push_back(progs[size_t(c)][pc[size_t(c)]++]); --remaining; }
   }
   return p;
}

struct C20 : Scenario {
   const char* id() const override { return "C20"; }
   const char* title() const override { return "Lexicons are isolated: independent instances do not share mutable state"; }
   const char* rule() const override
   {
      return "Layer 1 (interleaving simulation): 2-8 clients, each with its own Lexicon in its own sub-arena, programs drawn from the seed (all factories, printing, destruction and re-creation), interleaved by the seeded scheduler at operation granularity "
             "(single steps and bursts). Oracle: each client's trace (address-independent digests of its observable graph every 8 operations and at the end, hashes of its printed bytes) equals the trace of the same program executed alone; "
             "every address a client receives lies in its own sub-arena or in the executable image (so the only nodes two Lexicons share are static constants). "
             "Layer 2 (static-storage monitor): every writable static object of libipr in the executable (found by symbol: namespace ipr incl. function-local statics and guard variables; .data.rel.ro excluded) is snapshotted before and "
             "compared after every operation; an object written during operations of two different Lexicons is shared mutable state. On the current tree the monitored set is empty (everything is constexpr), which the evidence reports. "
             "Layer 3 (real threads under ThreadSanitizer) runs in the tsan flavour and is merged into this evidence file as coverage.tsan_layer. Non-trivial = at least two clients executed interleaved.";
   }
   std::vector<std::string> probe_names() const override
   {
      return { "clients", "ops", "scheduler_switches", "trace_points_compared", "solo_runs", "address_ownership_checks", "opt.monitored_static_symbols", "static_snapshots", "opt.ipr_tls_symbols",
               "prints", "destroy_recreate", "opt.both_alive_at_print", "opt.threads", "opt.thread_runs" };
   }
   std::vector<std::string> assumptions() const override
   {
      return { "libipr is linked statically into the simulator, so its static objects are visible in the executable's symbol table (built with -g1, not stripped)",
               "thread-local statics of libipr are counted (opt.ipr_tls_symbols) but not snapshotted" };
   }
   size_t search_count(int tier) const override { return tier == 0 ? 600 : 60000; }
   Plan generate(uint64_t run_seed, int) const override { return generate_clients(run_seed, 8); }

   Verdict execute(const Plan& plan, RunCtx& ctx) const override
   {
      const int nclients = int(std::min<int64_t>(8, std::max<int64_t>(1, plan.get("clients", 2))));
      ctx.probe(D_clients, uint64_t(nclients));
      // solo reference runs, one client at a time
      std::vector<Trace> solo(static_cast<size_t>(nclients));
      for (int c = 0; c < nclients; ++c) {
         ClientRun cr;
         cr.owner = c;
         cr.ctx = &ctx;
         for (const Op& op : plan.ops) if (((op.client % nclients) + nclients) % nclients == c) cr.step(op);
         cr.finish();
         if (cr.w and cr.w->failed()) return cr.w->verdict;
         solo[size_t(c)] = cr.trace;
         ctx.probe(D_solo_runs);
      }
      // interleaved run under the scheduler's order, with the static-storage monitor
      size_t tls = 0;
      static const std::vector<sim::StaticSym> watch = sim::writable_ipr_statics(&tls);
      ctx.probe(D_static_symbols, watch.size());
      ctx.probe(D_tls_symbols, tls);
      std::vector<std::vector<unsigned char>> snap(watch.size());
      std::vector<int> writer(watch.size(), -1);
      std::vector<ClientRun> runs(static_cast<size_t>(nclients));
      for (int c = 0; c < nclients; ++c) { runs[size_t(c)].owner = c; runs[size_t(c)].ctx = &ctx; runs[size_t(c)].check_ownership = true; }
      int last_client = -1;
      for (const Op& op : plan.ops) {
         const int c = ((op.client % nclients) + nclients) % nclients;
         if (c != last_client) { ctx.probe(D_interleaved_switches); last_client = c; }
         for (size_t k = 0; k < watch.size(); ++k) snap[k].assign(reinterpret_cast<const unsigned char*>(watch[k].addr), reinterpret_cast<const unsigned char*>(watch[k].addr) + watch[k].size);
         ctx.probe(D_static_snapshots);
         if (life_code(op) == LIFE_PRINT) { ctx.probe(D_prints); int alive = 0; for (auto& r : runs) if (r.w) ++alive; if (alive >= 2) ctx.probe(D_both_alive_at_print); }
         if (life_code(op) == LIFE_DROP) ctx.probe(D_destroy_recreate);
         runs[size_t(c)].step(op);
         ctx.probe(D_ops);
         ++ctx.steps;
         if (ctx.verbose) ctx.event("%s", describe_life(op).c_str());
         if (runs[size_t(c)].w and runs[size_t(c)].w->failed()) return runs[size_t(c)].w->verdict;
         for (size_t k = 0; k < watch.size(); ++k)
            if (std::memcmp(snap[k].data(), reinterpret_cast<const void*>(watch[k].addr), watch[k].size) != 0) {
               if (writer[k] >= 0 and writer[k] != c)
                  return Verdict::fail("C20/shared-mutable-static/" + watch[k].name, "static object " + watch[k].name + " (" + watch[k].section + ") was written during operations of Lexicon " + std::to_string(writer[k]) + " and of Lexicon " + std::to_string(c));
               writer[k] = c;
            }
         if (not runs[size_t(c)].problem.empty()) return Verdict::fail("C20/foreign-address/" + std::string(op_name(op.code)), runs[size_t(c)].problem);
         ctx.probe(D_address_checks);
      }
      for (int c = 0; c < nclients; ++c) {
         ClientRun& cr = runs[size_t(c)];
         // every modelled object of a client lives in its own sub-arena or is static
         if (cr.w)
            for (Ref r : cr.w->order)
               if (sim::heap::in_arena(r) and sim::heap::owner_of(r) != c)
                  return Verdict::fail("C20/foreign-address", "an object of client " + std::to_string(c) + " lies in the sub-arena of client " + std::to_string(sim::heap::owner_of(r)));
         cr.finish();
         ctx.relevant = nclients >= 2;
         ctx.probe(D_trace_points, cr.trace.points.size());
         if (cr.trace.points != solo[size_t(c)].points) {
            size_t k = 0;
            while (k < cr.trace.points.size() and k < solo[size_t(c)].points.size() and cr.trace.points[k] == solo[size_t(c)].points[k]) ++k;
            return Verdict::fail("C20/trace-differs-from-solo", "client " + std::to_string(c) + " obtained different results interleaved with other Lexicons than alone (first difference at trace point " + std::to_string(k) +
                                 " of " + std::to_string(solo[size_t(c)].points.size()) + ")");
         }
         ctx.event("client %d trace %zu points ok", c, cr.trace.points.size());
      }
      return Verdict::ok();
   }
   std::string describe(const Op& o) const override { return describe_life(o); }
};

C13 c13; Registrar r13(&c13);
C19 c19; Registrar r19(&c19);
C20 c20; Registrar r20(&c20);

#if defined(SIM_TSAN)
// ================================================================================== C20T (layer 3, tsan flavour only)
struct C20T : Scenario {
   const char* id() const override { return "C20T"; }
   const char* title() const override { return "Lexicons used from different threads: data races and per-thread results (ThreadSanitizer layer of C20)"; }
   const char* rule() const override
   {
      return "2-6 real threads released from a barrier, each running its seed-determined program (all factories, printing, destruction and re-creation) on its own Lexicon and printing to its own stream, under ThreadSanitizer. "
             "The interleaving is the kernel's, not the simulator's: this layer keeps data races visible, which a serialising scheduler by construction cannot. Oracle: no ThreadSanitizer report (exit code 66 kills the worker and is attributed to the seed); "
             "each thread's trace equals the trace of the same program executed alone before the threads start. Non-trivial = at least two threads ran.";
   }
   std::vector<std::string> probe_names() const override
   {
      return { "clients", "ops", "opt.scheduler_switches", "trace_points_compared", "solo_runs", "opt.address_ownership_checks", "opt.monitored_static_symbols", "opt.static_snapshots", "opt.ipr_tls_symbols",
               "opt.prints", "opt.destroy_recreate", "opt.both_alive_at_print", "threads", "thread_runs" };
   }
   bool needs_tsan() const override { return true; }
   size_t search_count(int tier) const override { return tier == 0 ? 120 : 6000; }
   Plan generate(uint64_t run_seed, int) const override { return generate_clients(run_seed, 6); }
   Verdict execute(const Plan& plan, RunCtx& ctx) const override
   {
      const int nclients = int(std::min<int64_t>(6, std::max<int64_t>(1, plan.get("clients", 2))));
      ctx.probe(D_clients, uint64_t(nclients));
      std::vector<std::vector<Op>> progs(static_cast<size_t>(nclients));
      for (const Op& op : plan.ops) progs[size_t(((op.client % nclients) + nclients) % nclients)].push_back(op);
      std::vector<Trace> solo(static_cast<size_t>(nclients));
      for (int c = 0; c < nclients; ++c) {
         RunCtx local;
         ClientRun cr;
         cr.owner = c;
         cr.ctx = &local;
         for (auto& op : progs[size_t(c)]) cr.step(op);
         cr.finish();
         solo[size_t(c)] = cr.trace;
         ctx.probe(D_solo_runs);
      }
      std::vector<Trace> conc(static_cast<size_t>(nclients));
      std::vector<uint64_t> steps(static_cast<size_t>(nclients), 0);
      std::atomic<int> ready { 0 };
      std::atomic<bool> go { false };
      std::vector<std::thread> threads;
      for (int c = 0; c < nclients; ++c)
         threads.emplace_back([&, c] {
            RunCtx local;
            ClientRun cr;
            cr.owner = c;
            cr.ctx = &local;
            ++ready;
            while (not go.load(std::memory_order_acquire)) std::this_thread::yield();
            for (auto& op : progs[size_t(c)]) cr.step(op);
            cr.finish();
            conc[size_t(c)] = cr.trace;
            steps[size_t(c)] = local.steps;
         });
      while (ready.load() < nclients) std::this_thread::yield();
      go.store(true, std::memory_order_release);
      for (auto& t : threads) t.join();
      ctx.probe(D_threads, uint64_t(nclients));
      ctx.probe(D_thread_runs);
      ctx.relevant = nclients >= 2;
      for (int c = 0; c < nclients; ++c) {
         ctx.steps += steps[size_t(c)];
         ctx.probe(D_ops, progs[size_t(c)].size());
         ctx.probe(D_trace_points, conc[size_t(c)].points.size());
         if (conc[size_t(c)].points != solo[size_t(c)].points)
            return Verdict::fail("C20T/trace-differs-from-solo", "thread " + std::to_string(c) + " obtained different results running concurrently with other Lexicons than alone");
         ctx.event("thread %d trace %zu points ok", c, conc[size_t(c)].points.size());
      }
      return Verdict::ok();
   }
   std::string describe(const Op& o) const override { return describe_life(o); }
};
C20T c20t; Registrar r20t(&c20t);
#endif

}

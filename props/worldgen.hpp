// Shared plan generation for scenarios driven by the World engine.
#pragma once
#include "../sim/scenario.hpp"
#include "../model/world.hpp"
#include <vector>

namespace props {
using namespace sim;
using namespace model;

struct OpWeight { int code; int weight; };

inline Plan gen_world_plan(Rng& r, const std::vector<OpWeight>& table, size_t n, int range, int fault_runs_den, int max_faults = 2)
{
   Plan p;
   p.set("policy", int64_t(r.below(4)));
   p.set("range", range);
   int total = 0;
   for (auto& w : table) total += w.weight;
   int faults_left = (fault_runs_den > 0 and r.chance(1, unsigned(fault_runs_den))) ? max_faults : 0;
   p.set("faulty", faults_left > 0);
   for (size_t i = 0; i < n; ++i) {
      int x = int(r.below(uint64_t(total)));
      int code = table.back().code;
      for (auto& w : table) { if (x < w.weight) { code = w.code; break; } x -= w.weight; }
      Op o;
      o.code = code;
      for (auto& a : o.a) a = int64_t(r.below(uint64_t(range)));
      // which allocation of the operation fails: most factory calls make one to three, declarations and macro operations up to ten
      if (faults_left > 0 and r.chance(1, 12)) { o.fault = r.chance(1, 2) ? int(r.range(1, 3)) : int(r.range(4, 10)); --faults_left; }
      p.ops.push_back(o);
   }
   return p;
}

// one op per opcode in [lo, hi), in order, with small distinct selectors: the seed-independent "every opcode once" prologue
inline Plan every_op_once(int lo, int hi, int variant)
{
   Plan p;
   p.set("policy", int64_t(variant % 4));
   for (int c = lo; c < hi; ++c) {
      Op o;
      o.code = c;
      for (int k = 0; k < 6; ++k) o.a[k] = int64_t(1 + variant + 2 * k + c % 5);
      p.ops.push_back(o);
   }
   return p;
}

}

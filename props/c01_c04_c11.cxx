// C01 types are unified; C04 names and atoms are unified, one Identifier per spelling,
// value equality by spelling; C11 qualified types are in normal form.
#include "worldgen.hpp"
#include <ipr/traversal>

namespace {
using namespace props;

enum Probe { P_ops, P_creation_checks, P_unify_hits, P_unify_fresh, P_rerequests, P_long_run, P_noise, P_fault_cfg, P_fault_fired,
             P_reuse, P_pol0, P_pol1, P_pol2, P_pol3, P_natural_spelled, P_default_eh_spelled, P_qual_chain, P_qual_empty, P_reserved_id,
             P_value_pairs, P_ops_distinct, P_count };

std::vector<std::string> common_probe_names()
{
   return { "ops", "creation_checks", "unify.same_key_hits", "unify.fresh_keys", "unify.rerequests_at_end", "long_run", "noise_ops",
            "fault.alloc_configured", "fault.alloc_fired", "heap.reused_blocks", "heap.ascending", "heap.descending", "heap.scatter", "heap.lifo",
            "natural_transfer_spelled_out", "default_noexcept_spelled_out", "qualified_chained_requests", "qualified_empty_requests",
            "reserved_spelling_identifiers", "value_equality_pairs", "distinct_opcodes_applied" };
}

void noise_op(World& w, const Op& op)
{
   const int code = ((op.code % OP_COUNT) + OP_COUNT) % OP_COUNT;
   if (code == OP_noise_alloc) w.noise_blocks.push_back(sim::heap::noise_alloc(size_t(8 + uint64_t(op.a[0]) % 300)));
   else if (not w.noise_blocks.empty()) {
      size_t i = size_t(uint64_t(op.a[0]) % w.noise_blocks.size());
      sim::heap::noise_free(w.noise_blocks[i]);
      w.noise_blocks.erase(w.noise_blocks.begin() + long(i));
   }
}

struct UnifyScenario : Scenario {
   virtual std::vector<OpWeight> table() const = 0;
   virtual std::pair<int, int> prologue_range() const = 0;
   virtual Verdict extra_checks(World&, RunCtx&) const { return Verdict::ok(); }
   virtual void seed_world(World&) const { }

   std::vector<std::string> probe_names() const override
   {
      auto n = common_probe_names();
      const std::string me = id();
      auto optional = [&](int i) { n[size_t(i)] = "opt." + n[size_t(i)]; };
      if (me != "C01") { optional(P_natural_spelled); optional(P_default_eh_spelled); }
      if (me != "C11") { optional(P_qual_chain); }
      optional(P_qual_empty);
      if (me != "C04") { optional(P_reserved_id); optional(P_value_pairs); }
      if (me == "C11") { optional(P_long_run); }
      return n;
   }
   size_t prologue_count(int) const override { return 8; }
   Plan prologue(size_t i, int) const override
   {
      // every relevant opcode twice with identical selectors (same key twice), four heap policies, two selector variants
      auto [lo, hi] = prologue_range();
      Plan p = every_op_once(lo, hi, int(i));
      Plan q = every_op_once(lo, hi, int(i));
      p.ops.insert(p.ops.end(), q.ops.begin(), q.ops.end());
      p.seed = 0xC0100 + i;
      return p;
   }
   size_t search_count(int tier) const override { return tier == 0 ? 12000 : 400000; }
   Plan generate(uint64_t run_seed, int tier) const override
   {
      Rng r(run_seed);
      const bool long_run = r.chance(1, tier == 0 ? 500 : 2000);
      const size_t n = long_run ? size_t(r.range(3000, tier == 0 ? 12000 : 60000)) : size_t(r.range(10, 120));
      const int range = int(long_run ? r.range(20, 400) : r.range(3, 40));
      Plan p = gen_world_plan(r, table(), n, range, long_run ? 0 : 4);
      p.seed = run_seed;
      p.set("long", long_run);
      return p;
   }
   Verdict execute(const Plan& plan, RunCtx& ctx) const override
   {
      WorldOptions wo;
      wo.routes = true;
      wo.track_identifiers = true;
      World w(ctx, wo, id());
      seed_world(w);
      ctx.probe(P_pol0 + int(uint64_t(plan.get("policy", 0)) % 4));
      if (plan.get("long", 0)) ctx.probe(P_long_run);
      for (const Op& op : plan.ops) {
         const int code = ((op.code % OP_COUNT) + OP_COUNT) % OP_COUNT;
         if (code == OP_noise_alloc or code == OP_noise_free) { ++w.step; ++ctx.steps; noise_op(w, op); ctx.probe(P_noise); continue; }
         Ref r = w.apply(op);
         ctx.probe(P_ops);
         if (ctx.verbose or w.step <= 4000) ctx.event("%s -> %s", describe_op(op).c_str(), ref_str(r).c_str());
         if (w.failed()) return w.verdict;
         if (r != nullptr) ctx.relevant = true;
      }
      if (Verdict v = w.rerequest_all(); not v) return v;
      ctx.probe(P_rerequests, std::min<size_t>(w.rerequests.size(), 600));
      if (Verdict v = extra_checks(w, ctx); not v) return v;
      if (w.failed()) return w.verdict;
      ctx.probe(P_creation_checks, w.creation_checks);
      ctx.probe(P_unify_hits, w.unify_hits);
      ctx.probe(P_unify_fresh, w.unify_fresh);
      ctx.probe(P_fault_cfg, w.faults_configured);
      ctx.probe(P_fault_fired, w.faults_fired);
      ctx.probe(P_reuse, sim::heap::stats().reused);
      size_t distinct = 0;
      for (auto c : w.op_counts) if (c) ++distinct;
      ctx.probe(P_ops_distinct, distinct);
      return Verdict::ok();
   }
   std::string describe(const Op& o) const override { return describe_op(o); }
   std::vector<std::string> assumptions() const override
   {
      return { "unification keys are compared after the documented normal forms only (natural-transfer collapse, default exception specification = false, qualifier union over the unqualified main variant)",
               "'different arguments => different node' is asserted within one constructor only",
               "sequences handed to get_product/get_sum(const Sequence&) are Lexicon-owned; Warehouses are destroyed right after the call",
               "after an injected bad_alloc only memory safety and the stability of earlier results are asserted" };
   }
};

// ------------------------------------------------------------------------------ C01
struct C01 : UnifyScenario {
   const char* id() const override { return "C01"; }
   const char* title() const override { return "types are unified: same constructor arguments give the same node, and only then"; }
   const char* rule() const override
   {
      return "Histories on one Lexicon mixing all type constructors (pointer, reference, rvalue reference, array, qualified, the four function overloads, product/sum through Warehouse and Sequence, forall, "
             "ptr-to-member, tor, the three as-type overloads, the three transfer constructors) with operands drawn from built-ins, user-defined and previously constructed types, "
             "small selector ranges so that keys recur, noise allocations and unrelated constructions in between, four heap placement policies (address order of keys is unrelated to creation order under descending/scatter), "
             "a few long runs with thousands of insertions; every recorded key is requested once more at the end. Oracle: normalised-key map <-> node identity, plus the creation-time reading of each node. "
             "Non-trivial = at least one unified constructor answered.";
   }
   std::pair<int, int> prologue_range() const override { return { OP_get_string, OP_make_phantom }; }
   std::vector<OpWeight> table() const override
   {
      return {
         { OP_get_pointer, 10 }, { OP_get_reference, 7 }, { OP_get_rvalue_reference, 6 }, { OP_get_array, 8 }, { OP_get_qualified, 10 },
         { OP_get_function2, 6 }, { OP_get_function_xfer, 6 }, { OP_get_function_eh, 6 }, { OP_get_function_eh_xfer, 6 },
         { OP_get_product_wh, 10 }, { OP_get_product_seq, 4 }, { OP_get_sum_wh, 6 }, { OP_get_sum_seq, 3 }, { OP_get_forall, 6 },
         { OP_get_ptr_to_member, 6 }, { OP_get_tor, 5 }, { OP_get_as_type_id, 5 }, { OP_get_as_type_expr, 7 }, { OP_get_as_type_xfer, 6 },
         { OP_get_transfer_from_linkage, 3 }, { OP_get_transfer_from_convention, 3 }, { OP_get_transfer, 5 },
         { OP_get_decltype, 2 }, { OP_get_auto, 1 }, { OP_make_class, 2 }, { OP_make_enum, 1 }, { OP_make_union, 1 },
         { OP_get_string, 2 }, { OP_get_identifier_w, 3 }, { OP_get_linkage_w, 4 }, { OP_get_calling_convention, 4 },
         { OP_get_literal_w, 3 }, { OP_get_symbol, 2 }, { OP_make_literal_s, 1 },
         { OP_noise_alloc, 6 }, { OP_noise_free, 4 },
      };
   }
   Verdict extra_checks(World& w, RunCtx& ctx) const override
   {
      // probes: how often a request spelled out the natural transfer / the default specification
      for (auto& kv : w.unifiers[OP_get_function2].by_key) {
         if (kv.first.words.size() == 2 and kv.first.words[0] == "C++" and kv.first.words[1].empty()) ctx.probe(P_natural_spelled);
         if (kv.first.refs.size() == 3 and kv.first.refs[2] == nref(w.lex->false_value())) ctx.probe(P_default_eh_spelled);
      }
      return Verdict::ok();
   }
};

// ------------------------------------------------------------------------------ C04
struct C04 : UnifyScenario {
   const char* id() const override { return "C04"; }
   const char* title() const override { return "names and atoms are unified; a spelling has a single Identifier everywhere"; }
   const char* rule() const override
   {
      return "Histories of name constructors (identifier by word and by String, operator, suffix, conversion, ctor/dtor name, guide name, template-id, logogram) and atom constructors "
             "(symbol, label, this, literal via make_literal and get_literal, linkage by word and by String, calling convention, transfers) over spellings that include every reserved word, "
             "with noise in between and four heap policies. Oracles: normalised-key map <-> node identity (label(id) == symbol(id, void), this(T) == symbol(\"this\", T)); "
             "a spelling -> Identifier map fed with every Identifier seen (results, names of built-in types and symbolic constants, name of `this`); "
             "== on linkages, conventions, transfers, logograms holds exactly for equal spellings (all pairs of the run's pools). Non-trivial = at least one name/atom constructor answered.";
   }
   std::pair<int, int> prologue_range() const override { return { OP_get_string, OP_get_array }; }
   void seed_world(World& w) const override
   {
      // every Identifier reachable through the Lexicon takes part in the one-Identifier-per-spelling oracle
      for (auto t : w.builtins.types)
         if (auto id = ipr::util::view<ipr::Identifier>(t->name())) w.note_identifier(*id);
      for (auto s : w.builtins.symbols)
         if (auto id = ipr::util::view<ipr::Identifier>(s->name())) w.note_identifier(*id);
      if (auto id = ipr::util::view<ipr::Identifier>(w.lex->default_value().type().name())) w.note_identifier(*id);
   }
   std::vector<OpWeight> table() const override
   {
      return {
         { OP_get_string, 6 }, { OP_get_identifier_w, 10 }, { OP_get_identifier_s, 6 }, { OP_get_suffix, 6 }, { OP_get_operator_w, 6 },
         { OP_get_operator_s, 4 }, { OP_get_conversion, 6 }, { OP_get_ctor_name, 6 }, { OP_get_dtor_name, 6 }, { OP_get_guide_name, 4 },
         { OP_get_logogram, 6 }, { OP_get_linkage_w, 7 }, { OP_get_linkage_s, 5 }, { OP_get_calling_convention, 6 }, { OP_get_symbol, 8 },
         { OP_get_label, 6 }, { OP_get_this, 6 }, { OP_get_template_id, 4 }, { OP_make_template_id, 3 }, { OP_get_literal_w, 5 },
         { OP_get_literal_s, 4 }, { OP_make_literal_w, 4 }, { OP_make_literal_s, 4 },
         { OP_get_transfer_from_linkage, 3 }, { OP_get_transfer_from_convention, 3 }, { OP_get_transfer, 4 },
         { OP_get_pointer, 3 }, { OP_get_qualified, 2 }, { OP_make_expr_list, 2 }, { OP_expr_list_push_back, 2 }, { OP_make_primary_template, 2 },
         { OP_get_forall, 1 }, { OP_get_product_wh, 1 },
         { OP_noise_alloc, 5 }, { OP_noise_free, 3 },
      };
   }
   Verdict extra_checks(World& w, RunCtx& ctx) const override
   {
      // reserved spellings are requested through the public constructor in every run
      static const char8_t* const reserved[] = { u8"int", u8"void", u8"bool", u8"default", u8"delete", u8"this", u8"true", u8"false", u8"nullptr",
                                                 u8"typename", u8"class", u8"auto", u8"unsigned long long", u8"...", u8"C", u8"C++", u8"const" };
      for (auto sp : reserved) {
         const ipr::Identifier* id;
         { sim::SutScope s; id = &w.lex->get_identifier(sp); }
         w.note_identifier(*id);
         ctx.probe(P_reserved_id);
         if (w.failed()) return w.verdict;
      }
      if (Verdict v = w.check_value_equalities(); not v) return v;
      ctx.probe(P_value_pairs, w.linkages.size() * w.linkages.size() + w.conventions.size() * w.conventions.size() +
                                w.transfers.size() * w.transfers.size() + w.logograms.size() * w.logograms.size());
      return Verdict::ok();
   }
};

// ------------------------------------------------------------------------------ C11
struct C11 : UnifyScenario {
   const char* id() const override { return "C11"; }
   const char* title() const override { return "qualified types are in normal form"; }
   const char* rule() const override
   {
      return "For unqualified T (built-ins, pointers incl. pointers to qualified types, arrays, classes) and non-empty Q within {const, volatile, restrict}: random splittings of Q into successive, "
             "possibly overlapping qualification requests (each applied to the previous result or to a fresh type), in all orders and groupings, interleaved with other type requests and noise; the empty set is requested too. "
             "Oracle: every request yields the node keyed by (union of qualifiers, innermost unqualified type); qualifiers() is the union; main_variant() is the unqualified type and never a Qualified; "
             "the empty request is refused with logic_error and creates nothing. Non-trivial = at least one qualification request answered.";
   }
   std::pair<int, int> prologue_range() const override { return { OP_get_array, OP_get_decltype }; }
   size_t prologue_count(int) const override { return 8 + 343; }
   Plan prologue(size_t i, int tier) const override
   {
      if (i < 8) return UnifyScenario::prologue(i, tier);
      // every triple of successive requests (q1, q2, q3) in 1..7 chained on int, then the one-shot request of the union
      size_t k = i - 8;
      Plan p;
      p.seed = 0xC1100 + i;
      p.set("policy", int64_t(k % 4));
      int64_t q[3] = { int64_t(1 + k % 7), int64_t(1 + (k / 7) % 7), int64_t(1 + (k / 49) % 7) };
      for (int j = 0; j < 3; ++j) { Op o; o.code = OP_get_qualified; o.a[0] = q[j]; o.a[1] = 11; o.a[2] = j == 0 ? 0 : 1; p.ops.push_back(o); }
      Op u; u.code = OP_get_qualified; u.a[0] = q[0] | q[1] | q[2]; u.a[1] = 11; u.a[2] = 0; p.ops.push_back(u);
      Op z; z.code = OP_get_qualified; z.a[0] = 0; z.a[1] = 11; z.a[2] = 1; p.ops.push_back(z);
      return p;
   }
   std::vector<OpWeight> table() const override
   {
      return {
         { OP_get_qualified, 50 }, { OP_get_pointer, 8 }, { OP_get_array, 3 }, { OP_get_reference, 2 }, { OP_make_class, 2 }, { OP_get_product_wh, 2 },
         { OP_get_function2, 2 }, { OP_get_literal_w, 1 }, { OP_get_as_type_expr, 2 },
         { OP_noise_alloc, 5 }, { OP_noise_free, 3 },
      };
   }
   Verdict extra_checks(World& w, RunCtx& ctx) const override
   {
      // structural restatement over every qualified node the run obtained
      for (auto q : w.qualifieds.v) {
         if (q->qualifiers() == ipr::Qualifiers{ })
            return Verdict::fail("C11/empty-qualifier-node", "a Qualified node with an empty qualifier set exists");
         if (ipr::util::view<ipr::Qualified>(q->main_variant()) != nullptr)
            return Verdict::fail("C11/nested-qualified", "main_variant() of a Qualified node is itself a Qualified node");
      }
      ctx.probe(P_qual_chain, w.unifiers[OP_get_qualified].by_key.size());
      return Verdict::ok();
   }
};

C01 c01; Registrar r01(&c01);
C04 c04; Registrar r04(&c04);
C11 c11; Registrar r11(&c11);
}

# Build of ipr-sim: the five real translation units of /repo (from the current working
# tree) plus the simulator, in one of three flavours.  Driven by ./verif (which decides when
# repo-dependent objects must be thrown away); plain `make FLAVOUR=asan` also works.
REPO    ?= /repo
FLAVOUR ?= asan
OUT     ?= build/$(FLAVOUR)
CXX     ?= g++
HOOKS   ?= -DIPR_VERIF

COMMON  := -std=c++20 -g1 -fno-omit-frame-pointer -Wno-overloaded-virtual -I$(REPO)/include $(HOOKS) -DSIM_FLAVOUR=\"$(FLAVOUR)\"

ifeq ($(FLAVOUR),asan)
  SAN      := -fsanitize=address,undefined -fno-sanitize-recover=undefined
  CXXFLAGS := $(COMMON) -O1 $(SAN) -no-pie -fno-pie -DSIM_ASAN
  HEAPFLAGS:= $(COMMON) -O1 -fsanitize=undefined -fno-sanitize-recover=undefined -no-pie -fno-pie -DSIM_ASAN
  LDFLAGS  := $(SAN) -no-pie -Wl,-z,relro,-z,now
else ifeq ($(FLAVOUR),plain)
  CXXFLAGS := $(COMMON) -O2 -no-pie -fno-pie
  HEAPFLAGS:= $(CXXFLAGS)
  LDFLAGS  := -no-pie -Wl,-z,relro,-z,now
else ifeq ($(FLAVOUR),tsan)
  CXXFLAGS := $(COMMON) -O1 -fsanitize=thread -DSIM_NO_ARENA -DSIM_TSAN
  HEAPFLAGS:= $(CXXFLAGS)
  LDFLAGS  := -fsanitize=thread
else
  $(error unknown FLAVOUR $(FLAVOUR))
endif

LIB_SRC   := $(wildcard $(REPO)/src/*.cxx)
SIM_SRC   := sim/plan.cxx sim/driver.cxx sim/statics.cxx
HEAP_SRC  := sim/heap.cxx
DEP_SRC   := $(wildcard props/*.cxx) $(wildcard model/*.cxx)

LIB_OBJ   := $(patsubst $(REPO)/src/%.cxx,$(OUT)/repo/lib_%.o,$(LIB_SRC))
SIM_OBJ   := $(patsubst sim/%.cxx,$(OUT)/sim/%.o,$(SIM_SRC))
HEAP_OBJ  := $(OUT)/sim/heap.o
DEP_OBJ   := $(patsubst %.cxx,$(OUT)/repo/%.o,$(DEP_SRC))

BIN := $(OUT)/ipr-sim

all: $(BIN)

$(BIN): $(LIB_OBJ) $(SIM_OBJ) $(HEAP_OBJ) $(DEP_OBJ)
	$(CXX) -o $@ $^ $(LDFLAGS) -lpthread

$(OUT)/repo/lib_%.o: $(REPO)/src/%.cxx
	@mkdir -p $(dir $@)
	$(CXX) $(CXXFLAGS) -MMD -MP -c $< -o $@

$(OUT)/sim/heap.o: sim/heap.cxx
	@mkdir -p $(dir $@)
	$(CXX) $(HEAPFLAGS) -MMD -MP -c $< -o $@

$(OUT)/sim/%.o: sim/%.cxx
	@mkdir -p $(dir $@)
	$(CXX) $(CXXFLAGS) -MMD -MP -c $< -o $@

$(OUT)/repo/%.o: %.cxx
	@mkdir -p $(dir $@)
	$(CXX) $(CXXFLAGS) -MMD -MP -c $< -o $@

-include $(LIB_OBJ:.o=.d) $(SIM_OBJ:.o=.d) $(HEAP_OBJ:.o=.d) $(DEP_OBJ:.o=.d)

.PHONY: all

// ipr-sim driver: seeded batches over worker processes, crash attribution, determinism
// gates, minimisation, replay files, known findings, evidence.
#include "scenario.hpp"
#include "heap.hpp"
#include <algorithm>
#include <chrono>
#include <cerrno>
#include <cstring>
#include <cstdlib>
#include <fstream>
#include <map>
#include <set>
#include <sstream>
#include <stdexcept>
#include <string>
#include <vector>
#include <fcntl.h>
#include <poll.h>
#include <signal.h>
#include <sys/stat.h>
#include <sys/wait.h>
#include <sys/resource.h>
#include <unistd.h>

#ifndef SIM_FLAVOUR
#  define SIM_FLAVOUR "plain"
#endif

// Classify sanitizer hits: distinct exit code, no leak checking (the simulated heap does
// its own, deterministic, accounting).
extern "C" __attribute__((used, visibility("default"))) const char* __asan_default_options()
{
   return "exitcode=77:detect_leaks=0:abort_on_error=0:allocator_may_return_null=1:"
          "detect_stack_use_after_return=0:handle_segv=1:use_sigaltstack=1:print_summary=1";
}
extern "C" __attribute__((used, visibility("default"))) const char* __ubsan_default_options()
{
   return "halt_on_error=1:print_stacktrace=0:exitcode=78";
}
extern "C" __attribute__((used, visibility("default"))) const char* __tsan_default_options()
{
   return "exitcode=66:halt_on_error=1:second_deadlock_stack=1:report_signal_unsafe=0";
}

namespace sim {

// ---------------------------------------------------------------------------------
// registry
// ---------------------------------------------------------------------------------
static std::vector<Scenario*>& registry()
{
   static std::vector<Scenario*> r;
   return r;
}
void register_scenario(Scenario* s) { registry().push_back(s); }
const std::vector<Scenario*>& all_scenarios() { return registry(); }
Scenario* find_scenario(const std::string& id)
{
   for (auto s : registry()) if (id == s->id()) return s;
   return nullptr;
}

static std::vector<std::string> g_known_signatures;
const std::vector<std::string>& known_signatures() { return g_known_signatures; }

namespace { WarmUp g_warm_up = nullptr; }
void set_warm_up(WarmUp f) { g_warm_up = f; }

void breadcrumb(const char* text)
{
   // keep only the latest breadcrumb (stderr of a worker is a regular file; harmless elsewhere)
   if (ftruncate(2, 0) == 0) lseek(2, 0, SEEK_SET);
   char buf[256];
   int n = std::snprintf(buf, sizeof buf, "BREADCRUMB: %s\n", text);
   if (n > 0) (void) !write(2, buf, size_t(n < int(sizeof buf) ? n : int(sizeof buf) - 1));
}

namespace {

using Clock = std::chrono::steady_clock;
double seconds_since(Clock::time_point t0)
{
   return std::chrono::duration<double>(Clock::now() - t0).count();
}

uint64_t fnv(const std::string& s)
{
   Digest d;
   d.bytes(s.data(), s.size());
   return d.value();
}

std::string one_line(std::string s)
{
   for (auto& c : s) if (c == '\n' or c == '\t' or c == '\r') c = ' ';
   return s;
}

std::string read_file(const std::string& path)
{
   std::ifstream in(path, std::ios::binary);
   std::stringstream ss;
   ss << in.rdbuf();
   return ss.str();
}

bool write_file(const std::string& path, const std::string& text)
{
   std::ofstream out(path, std::ios::binary | std::ios::trunc);
   out << text;
   return bool(out);
}

void mkdirs(const std::string& path)
{
   std::string cur;
   for (size_t i = 0; i <= path.size(); ++i) {
      if (i == path.size() or path[i] == '/') {
         if (not cur.empty()) mkdir(cur.c_str(), 0755);
      }
      if (i < path.size()) cur += path[i];
   }
}

// ---------------------------------------------------------------------------------
// one run in this process
// ---------------------------------------------------------------------------------
struct RunResult {
   Verdict verdict;
   uint64_t digest = 0;
   uint64_t steps = 0;
   bool relevant = false;
   bool crashed = false;
   std::vector<uint64_t> probes;
   heap::Stats hs;
};

RunResult run_here(const Scenario& sc, const Plan& plan, bool verbose, int tier)
{
   RunResult r;
   RunCtx ctx;
   ctx.verbose = verbose;
   ctx.tier = tier;
   ctx.probes.assign(sc.probe_names().size(), 0);
   heap::reset(plan.seed, int(plan.get("policy", 0)));
   ctx.event("run prop=%s seed=%llu policy=%s ops=%zu", plan.prop.c_str(), (unsigned long long) plan.seed,
             heap::policy_name(int(plan.get("policy", 0)) % heap::PolicyCount), plan.ops.size());
   try {
      r.verdict = sc.execute(plan, ctx);
   }
   catch (const std::bad_alloc&) {
      if (heap::exhausted()) r.verdict = Verdict::skip("arena exhausted (harness budget)");
      else r.verdict = Verdict::fail(std::string(sc.id()) + "/escaped/bad_alloc", "std::bad_alloc escaped the scenario without an injected fault");
   }
   catch (const std::exception& e) {
      r.verdict = Verdict::fail(std::string(sc.id()) + "/escaped/exception", std::string("exception escaped the scenario: ") + e.what());
   }
   catch (...) {
      r.verdict = Verdict::fail(std::string(sc.id()) + "/escaped/unknown", "unknown exception escaped the scenario");
   }
   if (g_sut_depth != 0) g_sut_depth = 0;
   r.hs = heap::stats();
   if (r.verdict.kind == Verdict::Violation) ctx.event("VERDICT violation %s", r.verdict.cls.c_str());
   r.digest = ctx.log.value();
   r.steps = ctx.steps;
   r.relevant = ctx.relevant;
   r.probes = ctx.probes;
   return r;
}

std::string encode_result(const RunResult& r)
{
   std::ostringstream os;
   os << (r.verdict.kind == Verdict::Ok ? "OK" : r.verdict.kind == Verdict::Skip ? "SKIP" : "VIOL")
      << '\t' << r.digest << '\t' << r.steps << '\t' << (r.relevant ? 1 : 0)
      << '\t' << r.hs.allocs << '\t' << r.hs.reused << '\t' << r.hs.faults_fired
      << '\t' << one_line(r.verdict.cls) << '\t' << one_line(r.verdict.detail) << '\t';
   for (size_t i = 0; i < r.probes.size(); ++i) os << (i ? "," : "") << r.probes[i];
   return os.str();
}

bool decode_result(const std::string& line, RunResult& r)
{
   std::vector<std::string> f;
   size_t p = 0;
   while (true) {
      size_t q = line.find('\t', p);
      if (q == std::string::npos) { f.push_back(line.substr(p)); break; }
      f.push_back(line.substr(p, q - p));
      p = q + 1;
   }
   if (f.size() < 10) return false;
   r.verdict.kind = f[0] == "OK" ? Verdict::Ok : f[0] == "SKIP" ? Verdict::Skip : Verdict::Violation;
   r.digest = std::strtoull(f[1].c_str(), nullptr, 10);
   r.steps = std::strtoull(f[2].c_str(), nullptr, 10);
   r.relevant = f[3] == "1";
   r.hs.allocs = std::strtoull(f[4].c_str(), nullptr, 10);
   r.hs.reused = std::strtoull(f[5].c_str(), nullptr, 10);
   r.hs.faults_fired = std::strtoull(f[6].c_str(), nullptr, 10);
   r.verdict.cls = f[7];
   r.verdict.detail = f[8];
   r.probes.clear();
   std::stringstream ss(f[9]);
   std::string tok;
   while (std::getline(ss, tok, ',')) if (not tok.empty()) r.probes.push_back(std::strtoull(tok.c_str(), nullptr, 10));
   return true;
}

// Classify a dead child from its exit status and captured stderr.
std::string classify_crash(const std::string& prop, int status, const std::string& err)
{
   std::string kind;
   auto grab = [&](const char* key, const char* stop_chars) -> std::string {
      size_t p = err.find(key);
      if (p == std::string::npos) return "";
      p += std::strlen(key);
      size_t q = p;
      while (q < err.size() and std::strchr(stop_chars, err[q]) == nullptr) ++q;
      return err.substr(p, q - p);
   };
   std::string a = grab("ERROR: AddressSanitizer: ", " \n(");
   if (not a.empty()) kind = "asan:" + a;
   if (kind.empty()) {
      std::string u = grab("runtime error: ", "\n");
      if (not u.empty()) {
         // keep the generic part of the message (drop addresses / type names after "type")
         size_t cut = u.find(" 0x");
         if (cut != std::string::npos) u = u.substr(0, cut);
         cut = u.find(" of type");
         if (cut != std::string::npos) u = u.substr(0, cut);
         for (auto& c : u) if (c == ' ') c = '-';
         kind = "ubsan:" + u;
      }
   }
   if (kind.empty()) {
      std::string t = grab("WARNING: ThreadSanitizer: ", "(\n");
      if (not t.empty()) { while (not t.empty() and t.back() == ' ') t.pop_back(); for (auto& c : t) if (c == ' ') c = '-'; kind = "tsan:" + t; }
   }
   if (kind.empty()) {
      std::string h = grab("sim::heap fatal: ", "\n");
      if (not h.empty()) { for (auto& c : h) if (c == ' ') c = '-'; kind = "heap:" + h.substr(0, 40); }
   }
   if (kind.empty()) {
      if (WIFSIGNALED(status)) kind = "signal:" + std::to_string(WTERMSIG(status));
      else if (WIFEXITED(status)) kind = "exit:" + std::to_string(WEXITSTATUS(status));
      else kind = "unknown";
   }
   // the last breadcrumb tells what the process was doing when it died
   size_t bc = err.rfind("BREADCRUMB: ");
   if (bc != std::string::npos) {
      size_t e = err.find('\n', bc);
      std::string what = err.substr(bc + 12, e == std::string::npos ? std::string::npos : e - bc - 12);
      kind += "/" + what;
   }
   return prop + "/crash/" + kind;
}

std::string g_log_dir = "build/logs";

// Execute a plan in a forked child; survive and classify crashes.
RunResult run_in_child(const Scenario& sc, const Plan& plan, int tier, bool verbose = false, std::string* err_out = nullptr)
{
   static int counter = 0;
   mkdirs(g_log_dir);
   std::string errfile = g_log_dir + "/child-" + std::to_string(getpid()) + "-" + std::to_string(counter++ % 4) + ".err";
   int fds[2];
   if (pipe(fds) != 0) { perror("pipe"); _exit(2); }
   std::fflush(stdout);
   pid_t pid = fork();
   if (pid < 0) { perror("fork"); _exit(2); }
   if (pid == 0) {
      close(fds[0]);
      int efd = open(errfile.c_str(), O_WRONLY | O_CREAT | O_TRUNC, 0644);
      if (efd >= 0) { dup2(efd, 2); close(efd); }
      RunResult r = run_here(sc, plan, verbose, tier);
      std::string line = encode_result(r) + "\n";
      std::fflush(stdout);
      (void) !write(fds[1], line.data(), line.size());
      close(fds[1]);
      _exit(0);
   }
   close(fds[1]);
   std::string buf;
   char tmp[4096];
   ssize_t n;
   while ((n = read(fds[0], tmp, sizeof tmp)) > 0) buf.append(tmp, size_t(n));
   close(fds[0]);
   int status = 0;
   waitpid(pid, &status, 0);
   RunResult r;
   std::string err = read_file(errfile);
   if (err_out) *err_out = err;
   unlink(errfile.c_str());
   if (not buf.empty() and buf.back() == '\n') buf.pop_back();
   if (buf.empty() or not decode_result(buf, r) or not (WIFEXITED(status) and WEXITSTATUS(status) == 0)) {
      r = RunResult{ };
      r.crashed = true;
      r.verdict = Verdict::fail(classify_crash(sc.id(), status, err), one_line(err.substr(0, 600)));
   }
   return r;
}

// ---------------------------------------------------------------------------------
// batch over worker processes
// ---------------------------------------------------------------------------------
struct Options {
   std::string prop;
   int tier = 0;                    // 0 quick, 1 thorough
   uint64_t seed = 20260101;
   double budget_s = 0;             // 0 = tier default
   int workers = 0;
   std::string evidence_path;
   std::string replay_dir = "replays";
   std::string known_path = "known_findings.json";
   long max_runs = -1;              // override search count (self tests)
   bool no_recheck = false;
};

uint64_t run_seed_for(const Options& o, size_t index)
{
   return mix64(o.seed ^ fnv(o.prop) ^ (uint64_t(index) * 0x9e3779b97f4a7c15ull));
}

Plan plan_for(const Scenario& sc, const Options& o, size_t index, size_t nprologue)
{
   Plan p;
   if (index < nprologue) {
      p = sc.prologue(index, o.tier);
      p.set("_prologue", 1);
   } else {
      p = sc.generate(run_seed_for(o, index - nprologue), o.tier);
   }
   p.prop = sc.id();
   return p;
}

struct Worker {
   pid_t pid = -1;
   int fd = -1;
   int slot = 0;
   std::string buf;
   long inflight = -1;      // index with a B but no E yet
   long recycle_next = -1;  // the worker asked to be replaced by a fresh process starting at this index
   Clock::time_point began;
   std::string errfile;
   bool done = false;
};

struct Candidate {
   size_t index;
   Verdict verdict;
   bool crash;
};

struct BatchStats {
   uint64_t runs = 0, ok = 0, skipped = 0, violations = 0, crashes = 0, steps = 0, relevant = 0;
   uint64_t allocs = 0, reused = 0, faults_fired = 0;
   std::vector<uint64_t> probes;
   std::set<uint64_t> digests;         // distinct event-log digests among relevant runs
   std::map<size_t, uint64_t> digest_by_index; // for the determinism recheck sample
   std::vector<Candidate> candidates;
   bool deadline_hit = false;
   std::vector<std::pair<double, size_t>> slowest;   // (seconds, index) of the three slowest runs, measured by the parent
};

void worker_main(const Scenario& sc, const Options& o, int slot, int nworkers, size_t start, size_t total,
                 size_t nprologue, int fd, Clock::time_point deadline)
{
   // Without the arena (tsan flavour) nothing returns a run's memory to the system: the sanitizer's allocator keeps it, and
   // a worker that lives for a thousand runs was killed by the kernel at 31 GB.  Such a worker hands over to a fresh
   // process every few runs ("R <next index>").
   const size_t recycle_after = heap::available() ? 0 : 24;
   size_t done_here = 0;
   for (size_t i = start; i < total; i += size_t(nworkers)) {
      if (Clock::now() > deadline) break;
      if (recycle_after != 0 and done_here++ >= recycle_after) {
         char note[64];
         int n = std::snprintf(note, sizeof note, "R %zu\n", i);
         (void) !write(fd, note, size_t(n));
         return;
      }
      char head[64];
      int n = std::snprintf(head, sizeof head, "B %zu\n", i);
      (void) !write(fd, head, size_t(n));
      Plan plan = plan_for(sc, o, i, nprologue);
      RunResult r = run_here(sc, plan, false, o.tier);
      std::string line = "E " + std::to_string(i) + "\t" + encode_result(r) + "\n";
      (void) !write(fd, line.data(), line.size());
   }
   (void) !write(fd, "D\n", 2);
   (void) slot;
}

void spawn_worker(Worker& w, const Scenario& sc, const Options& o, int nworkers, size_t start, size_t total,
                  size_t nprologue, Clock::time_point deadline)
{
   int fds[2];
   if (pipe(fds) != 0) { perror("pipe"); _exit(2); }
   std::fflush(stdout);
   w.errfile = g_log_dir + "/worker-" + std::to_string(getpid()) + "-" + std::to_string(w.slot) + ".err";
   pid_t pid = fork();
   if (pid < 0) { perror("fork"); _exit(2); }
   if (pid == 0) {
      close(fds[0]);
      int efd = open(w.errfile.c_str(), O_WRONLY | O_CREAT | O_TRUNC, 0644);
      if (efd >= 0) { dup2(efd, 2); close(efd); }
      worker_main(sc, o, w.slot, nworkers, start, total, nprologue, fds[1], deadline);
      close(fds[1]);
      _exit(0);
   }
   close(fds[1]);
   w.pid = pid;
   w.fd = fds[0];
   w.buf.clear();
   w.inflight = -1;
   w.recycle_next = -1;
   w.done = false;
}

void absorb(BatchStats& bs, size_t index, const RunResult& r, bool keep_digest)
{
   ++bs.runs;
   bs.steps += r.steps;
   bs.allocs += r.hs.allocs;
   bs.reused += r.hs.reused;
   bs.faults_fired += r.hs.faults_fired;
   if (bs.probes.size() < r.probes.size()) bs.probes.resize(r.probes.size(), 0);
   for (size_t i = 0; i < r.probes.size(); ++i) bs.probes[i] += r.probes[i];
   if (r.relevant) { ++bs.relevant; bs.digests.insert(r.digest); }
   else if (r.crashed) bs.digests.insert(mix64(0xdeadull ^ uint64_t(index)));     // a run that died is a distinct execution of its own plan
   if (keep_digest) bs.digest_by_index[index] = r.digest;
   switch (r.verdict.kind) {
   case Verdict::Ok: ++bs.ok; break;
   case Verdict::Skip: ++bs.skipped; break;
   case Verdict::Violation:
      ++bs.violations;
      if (r.crashed) ++bs.crashes;
      bs.candidates.push_back({ index, r.verdict, r.crashed });
      break;
   }
}

bool recheck_index(size_t i) { return i % 50 == 7; }

BatchStats run_batch(const Scenario& sc, const Options& o, size_t nprologue, size_t total, int nworkers, double budget_s)
{
   BatchStats bs;
   bs.probes.assign(sc.probe_names().size(), 0);
   mkdirs(g_log_dir);
   auto deadline = Clock::now() + std::chrono::milliseconds((long long) (budget_s * 1000));
   std::vector<Worker> ws(static_cast<size_t>(nworkers));
   for (int k = 0; k < nworkers; ++k) {
      ws[size_t(k)].slot = k;
      if (size_t(k) < total) spawn_worker(ws[size_t(k)], sc, o, nworkers, size_t(k), total, nprologue, deadline);
      else ws[size_t(k)].done = true;
   }
   auto handle_line = [&](Worker& w, const std::string& line) {
      if (line.empty()) return;
      if (line[0] == 'B') { w.inflight = std::strtol(line.c_str() + 2, nullptr, 10); w.began = Clock::now(); }
      else if (line[0] == 'E') {
         size_t tab = line.find('\t');
         size_t idx = std::strtoull(line.c_str() + 2, nullptr, 10);
         RunResult r;
         if (tab != std::string::npos and decode_result(line.substr(tab + 1), r)) absorb(bs, idx, r, recheck_index(idx));
         if (w.inflight >= 0) {
            bs.slowest.push_back({ seconds_since(w.began), idx });
            std::sort(bs.slowest.rbegin(), bs.slowest.rend());
            if (bs.slowest.size() > 3) bs.slowest.resize(3);
         }
         w.inflight = -1;
      }
      else if (line[0] == 'D') w.done = true;
      else if (line[0] == 'R') { w.done = true; w.recycle_next = std::strtol(line.c_str() + 2, nullptr, 10); }
   };
   size_t active = 0;
   for (auto& w : ws) if (w.pid > 0) ++active;
   while (active > 0) {
      std::vector<pollfd> pf;
      std::vector<size_t> who;
      for (size_t k = 0; k < ws.size(); ++k) if (ws[k].fd >= 0) { pf.push_back({ ws[k].fd, POLLIN, 0 }); who.push_back(k); }
      if (pf.empty()) break;
      int rc = poll(pf.data(), nfds_t(pf.size()), 1000);
      if (rc < 0 and errno != EINTR) { perror("poll"); break; }
      for (size_t j = 0; j < pf.size(); ++j) {
         if (not (pf[j].revents & (POLLIN | POLLHUP | POLLERR))) continue;
         Worker& w = ws[who[j]];
         char tmp[65536];
         ssize_t n = read(w.fd, tmp, sizeof tmp);
         if (n > 0) {
            w.buf.append(tmp, size_t(n));
            size_t p;
            while ((p = w.buf.find('\n')) != std::string::npos) {
               handle_line(w, w.buf.substr(0, p));
               w.buf.erase(0, p + 1);
            }
            continue;
         }
         // EOF: worker finished or died
         close(w.fd);
         w.fd = -1;
         int status = 0;
         waitpid(w.pid, &status, 0);
         w.pid = -1;
         --active;
         const bool clean = w.done and WIFEXITED(status) and WEXITSTATUS(status) == 0;
         if (clean) {
            unlink(w.errfile.c_str());
            if (w.recycle_next >= 0 and size_t(w.recycle_next) < total and Clock::now() < deadline) {
               const size_t next = size_t(w.recycle_next);
               w.recycle_next = -1;
               spawn_worker(w, sc, o, nworkers, next, total, nprologue, deadline);
               ++active;
            }
            continue;
         }
         if (w.inflight >= 0) {
            // attribute the death to the seed that has a B without an E
            std::string err = read_file(w.errfile);
            RunResult r;
            if (WIFSIGNALED(status) and WTERMSIG(status) == SIGKILL) {
               // killed from outside (the kernel's out-of-memory killer): a resource limit of the harness, not a verdict
               r.verdict = Verdict::skip("worker killed by SIGKILL (out of memory)");
            } else {
               r.crashed = true;
               r.verdict = Verdict::fail(classify_crash(sc.id(), status, err), one_line(err.substr(0, 600)));
            }
            absorb(bs, size_t(w.inflight), r, false);
            size_t next = size_t(w.inflight) + size_t(nworkers);
            if (next < total and Clock::now() < deadline and bs.crashes < 200) {
               spawn_worker(w, sc, o, nworkers, next, total, nprologue, deadline);
               ++active;
            }
         } else if (not w.done) {
            std::fprintf(stderr, "worker %d ended without a run in flight (status %d)\n", w.slot, status);
         }
      }
   }
   if (Clock::now() > deadline) bs.deadline_hit = true;
   return bs;
}

// ---------------------------------------------------------------------------------
// known findings
// ---------------------------------------------------------------------------------
struct Known {
   std::string property, status, signature, what, replay, commit;
};

std::vector<Known> load_known(const std::string& path)
{
   std::vector<Known> out;
   std::string text = read_file(path);
   if (text.empty()) return out;
   Json j;
   if (not json_parse(text, j)) { std::fprintf(stderr, "warning: cannot parse %s\n", path.c_str()); return out; }
   auto f = j.find("findings");
   if (f == nullptr or f->kind != Json::Arr) return out;
   for (auto& e : f->arr) {
      Known k;
      k.property = e.str_or("property", "");
      k.status = e.str_or("status", "");
      k.signature = e.str_or("signature", "");
      k.what = e.str_or("what", "");
      k.replay = e.str_or("replay", "");
      k.commit = e.str_or("commit", "");
      out.push_back(k);
   }
   return out;
}

bool signature_matches(const std::string& sig, const std::string& cls)
{
   if (sig.empty()) return false;
   if (sig.back() == '*') return cls.compare(0, sig.size() - 1, sig, 0, sig.size() - 1) == 0;
   return sig == cls;
}

const Known* match_known(const std::vector<Known>& ks, const std::string& prop, const std::string& cls)
{
   for (auto& k : ks)
      if (k.status == "known" and k.property == prop and signature_matches(k.signature, cls)) return &k;
   return nullptr;
}

// ---------------------------------------------------------------------------------
// replay files
// ---------------------------------------------------------------------------------
std::string replay_json(const Plan& plan, const Verdict& v, uint64_t digest, const std::string& extra)
{
   std::string s = "{\n";
   s += "  \"property\": \"" + json_escape(plan.prop) + "\",\n";
   s += "  \"flavour\": \"" SIM_FLAVOUR "\",\n";
   s += "  \"expected_class\": \"" + json_escape(v.cls) + "\",\n";
   s += "  \"detail\": \"" + json_escape(v.detail) + "\",\n";
   s += "  \"expected_digest\": \"" + std::to_string((unsigned long long) digest) + "\",\n";
   if (not extra.empty()) s += extra;
   s += "  \"plan\": " + plan_to_json(plan, "  ") + "\n}\n";
   return s;
}

bool load_replay(const std::string& path, Plan& plan, std::string& expected_cls, std::string& expected_digest)
{
   Json j;
   if (not json_parse(read_file(path), j)) return false;
   auto p = j.find("plan");
   if (p == nullptr or not plan_from(*p, plan)) return false;
   expected_cls = j.str_or("expected_class", "");
   expected_digest = j.str_or("expected_digest", "");
   return true;
}

// The warm-up program in a child of its own: exit status and stderr.
int warm_up_probe(std::string& err)
{
   mkdirs(g_log_dir);
   const std::string errfile = g_log_dir + "/warmup-" + std::to_string(getpid()) + ".err";
   std::fflush(stdout);
   pid_t pid = fork();
   if (pid < 0) return -1;
   if (pid == 0) {
      int nul = open("/dev/null", O_WRONLY);
      if (nul >= 0) { dup2(nul, 1); close(nul); }
      int efd = open(errfile.c_str(), O_WRONLY | O_CREAT | O_TRUNC, 0644);
      if (efd >= 0) { dup2(efd, 2); close(efd); }
      heap::reset(1, 0);
      heap::set_owner(heap::process_owner);
      try { g_warm_up(); } catch (...) { _exit(3); }
      _exit(0);
   }
   int status = 0;
   waitpid(pid, &status, 0);
   err = read_file(errfile);
   unlink(errfile.c_str());
   return status;
}

// Once per process, before its first run.  A probe child goes first.  The warm-up is a fixed, legal program (two
// Lexicons side by side, every factory, printing, destruction); if it kills the probe child twice in the same way, that is
// a violation in its own right (recorded here, reported by the check with a replay file of its own), and the parent goes
// on without a warm-up so that the runs report what else is wrong.
struct WarmUpFailure { bool failed = false; std::string kind, detail; } g_warm_up_failure;

void warm_up_once()
{
   static bool done = false;
   // not in the tsan flavour: there is no arena to protect, and a lazy initialisation that is not thread-safe must stay
   // visible to the real-thread layer instead of being performed up front by one thread
   if (done or g_warm_up == nullptr or not heap::available()) return;
   done = true;
   std::string err;
   int status = warm_up_probe(err);
   if (status < 0 or not (WIFEXITED(status) and WEXITSTATUS(status) == 0)) {
      std::string err2;
      const int status2 = warm_up_probe(err2);
      const std::string k1 = classify_crash("", status, err), k2 = classify_crash("", status2, err2);
      std::printf("note: the warm-up run did not complete in a probe child (%s); runs start without it\n", k1.c_str());
      if (k1 == k2) { g_warm_up_failure.failed = true; g_warm_up_failure.kind = k1; g_warm_up_failure.detail = one_line(err.substr(0, 600)); }
      return;
   }
   heap::reset(1, 0);
   heap::set_owner(heap::process_owner);
   try { g_warm_up(); } catch (...) { }
   g_sut_depth = 0;
   heap::set_owner(0);
}

int cmd_replay(const std::string& path, bool verbose)
{
   Plan plan;
   std::string cls, dig;
   if (not load_replay(path, plan, cls, dig)) { std::fprintf(stderr, "cannot load replay file %s\n", path.c_str()); return 2; }
   Scenario* sc = find_scenario(plan.prop);
   if (sc == nullptr) { std::fprintf(stderr, "unknown property %s\n", plan.prop.c_str()); return 2; }
   std::printf("replaying %s (%zu ops, seed %llu, flavour " SIM_FLAVOUR ")\n", path.c_str(), plan.ops.size(), (unsigned long long) plan.seed);
   for (size_t i = 0; i < plan.ops.size() and i < 200; ++i) std::printf("  op[%zu] %s\n", i, sc->describe(plan.ops[i]).c_str());
   std::string err;
   if (plan.get("warmup", 0) != 0) {
      // the replay file of a warm-up failure: the program is the warm-up run itself
      std::printf("replaying the warm-up program (two Lexicons side by side, every factory once, printing, destruction)\n");
      if (g_warm_up == nullptr or not heap::available()) { std::printf("NO-VIOLATION digest=0\n"); return 0; }
      std::string werr;
      const int status = warm_up_probe(werr);
      if (status >= 0 and WIFEXITED(status) and WEXITSTATUS(status) == 0) { std::printf("NO-VIOLATION digest=0\n"); return 0; }
      const std::string got = plan.prop + classify_crash("", status, werr) + "/warm-up";
      std::printf("violation class: %s\n  %s\n", got.c_str(), one_line(werr.substr(0, 600)).c_str());
      if (cls.empty() or got == cls) { std::printf("REPRODUCED %s digest=0\n", got.c_str()); return 1; }
      std::printf("DIFFERENT expected=%s got=%s\n", cls.c_str(), got.c_str());
      return 3;
   }
   warm_up_once();
   RunResult r = run_in_child(*sc, plan, 0, verbose, &err);
   if (r.verdict.kind != Verdict::Violation) {
      std::printf("NO-VIOLATION digest=%llu\n", (unsigned long long) r.digest);
      return 0;
   }
   std::printf("violation class: %s\n  %s\n", r.verdict.cls.c_str(), r.verdict.detail.c_str());
   if (verbose and r.crashed) std::printf("---- stderr of the run\n%s\n----\n", err.c_str());
   if (cls.empty() or r.verdict.cls == cls) {
      std::printf("REPRODUCED %s digest=%llu\n", r.verdict.cls.c_str(), (unsigned long long) r.digest);
      return 1;
   }
   std::printf("DIFFERENT expected=%s got=%s\n", cls.c_str(), r.verdict.cls.c_str());
   return 3;
}

// Run `argv0 replay file` in a fresh process and report its exit code.
int fresh_replay(const char* argv0, const std::string& path)
{
   std::fflush(stdout);
   pid_t pid = fork();
   if (pid < 0) return -1;
   if (pid == 0) {
      int nul = open("/dev/null", O_WRONLY);
      if (nul >= 0) { dup2(nul, 1); dup2(nul, 2); close(nul); }
      execl(argv0, argv0, "replay", path.c_str(), (char*) nullptr);
      _exit(127);
   }
   int status = 0;
   waitpid(pid, &status, 0);
   return WIFEXITED(status) ? WEXITSTATUS(status) : -1;
}

// ---------------------------------------------------------------------------------
// evidence
// ---------------------------------------------------------------------------------
std::string sample_json(const Scenario& sc, const Plan& p, size_t max_ops = 12)
{
   std::string s = "{\"seed\": " + std::to_string((long long) p.seed) + ", \"policy\": \"" +
      heap::policy_name(int(p.get("policy", 0)) % heap::PolicyCount) + "\", \"cfg\": {";
   bool first = true;
   for (auto& kv : p.cfg) { s += (first ? "\"" : ", \"") + json_escape(kv.first) + "\": " + std::to_string((long long) kv.second); first = false; }
   s += "}, \"n_ops\": " + std::to_string(p.ops.size()) + ", \"ops\": [";
   for (size_t i = 0; i < p.ops.size() and i < max_ops; ++i) s += (i ? ", \"" : "\"") + json_escape(sc.describe(p.ops[i])) + "\"";
   if (p.ops.size() > max_ops) s += ", \"...\"";
   s += "]}";
   return s;
}

struct Report {
   std::vector<std::string> violation_lines;       // VIOLATION property=.. replay=..
   std::vector<std::string> known_lines;           // KNOWN-FINDING: ...
   std::vector<std::string> violation_json;
   std::vector<std::string> known_json;
   bool harness_problem = false;
   std::string harness_msg;
};

// ---------------------------------------------------------------------------------
// the check command
// ---------------------------------------------------------------------------------
int cmd_check(const Options& o0, const char* argv0)
{
   Options o = o0;
   Scenario* scp = find_scenario(o.prop);
   if (scp == nullptr) { std::fprintf(stderr, "unknown property %s\n", o.prop.c_str()); return 2; }
   const Scenario& sc = *scp;
   auto t0 = Clock::now();
   const size_t nprologue = sc.prologue_count(o.tier);
   size_t nsearch = o.max_runs >= 0 ? size_t(o.max_runs) : sc.search_count(o.tier);
   const size_t total = nprologue + nsearch;
   int nworkers = o.workers > 0 ? o.workers : (std::string(SIM_FLAVOUR) == "asan" ? 8 : 16);
   if (sc.needs_tsan()) nworkers = std::min(nworkers, 4);
   double budget = o.budget_s > 0 ? o.budget_s : (o.tier == 0 ? 150.0 : 1500.0);
   std::printf("[%s] %s: flavour=" SIM_FLAVOUR " tier=%s seed=%llu prologue=%zu search=%zu workers=%d budget=%.0fs\n",
               sc.id(), sc.title(), o.tier ? "thorough" : "quick", (unsigned long long) o.seed, nprologue, nsearch, nworkers, budget);
   std::fflush(stdout);

   for (auto& k : load_known(o.known_path)) if (k.status == "known" and k.property == sc.id()) g_known_signatures.push_back(k.signature);
   warm_up_once();
   BatchStats bs = run_batch(sc, o, nprologue, total, nworkers, budget);
   const double batch_s = seconds_since(t0);
   Report rep;
   auto known = load_known(o.known_path);

   // -- determinism recheck of a sample of seeds (2 %) in a separate process
   size_t rechecked = 0, recheck_mismatch = 0;
   if (not o.no_recheck) {
      for (auto& kv : bs.digest_by_index) {
         if (rechecked >= 400) break;
         Plan p = plan_for(sc, o, kv.first, nprologue);
         RunResult r = run_in_child(sc, p, o.tier);
         ++rechecked;
         if (r.crashed or r.digest != kv.second) {
            ++recheck_mismatch;
            std::fprintf(stderr, "determinism recheck: index %zu digest %llu vs %llu\n", kv.first,
                         (unsigned long long) kv.second, (unsigned long long) r.digest);
         }
      }
   }

   // -- triage violation candidates: one per distinct class, gates, minimise, replay file
   std::map<std::string, Candidate> by_class;
   for (auto& c : bs.candidates) {
      auto it = by_class.find(c.verdict.cls);
      if (it == by_class.end() or c.index < it->second.index) by_class[c.verdict.cls] = c;
   }
   if (std::getenv("VERIF_LIST_CLASSES")) {
      // exploratory mode: list every distinct violation class with the index of its first occurrence, no triage
      for (auto& kv : by_class) std::printf("CLASS %s index=%zu detail=%s\n", kv.first.c_str(), kv.second.index, kv.second.verdict.detail.substr(0, 200).c_str());
      return by_class.empty() ? 0 : 1;
   }
   mkdirs(o.replay_dir);
   size_t triaged = 0;
   std::set<std::string> reported_classes;
   std::vector<std::string> gate_failures;
   for (auto& kv : by_class) {
      if (triaged >= 8) break;
      ++triaged;
      const Candidate& c = kv.second;
      Plan plan = plan_for(sc, o, c.index, nprologue);
      // Gate 1: the original seed, run twice more in fresh children, gives the same class and digest.
      RunResult a = run_in_child(sc, plan, o.tier);
      RunResult b = run_in_child(sc, plan, o.tier);
      std::string want = c.verdict.cls;
      bool reproducible = a.verdict.kind == Verdict::Violation and b.verdict.kind == Verdict::Violation and a.verdict.cls == b.verdict.cls
                          and (a.crashed or b.crashed or a.digest == b.digest);
      // A process death is classified from the sanitizer's first line, which for a wild pointer can differ between a
      // long-lived worker and a fresh child (which sanitizer trips first); the fresh children are authoritative.
      if (reproducible and a.verdict.cls != want and c.crash and a.crashed) want = a.verdict.cls;
      if (not reproducible or a.verdict.cls != want) {
         gate_failures.push_back("violation candidate " + c.verdict.cls + " at index " + std::to_string(c.index) +
            " did not reproduce identically (got " + a.verdict.cls + " / " + b.verdict.cls + ")");
         continue;
      }
      if (by_class.count(want) and want != kv.first and reported_classes.count(want)) continue;   // already reported under its canonical class
      // Minimise while the same violation class persists.
      ShrinkStats st;
      Plan small = shrink_plan(plan, [&](const Plan& cand) {
         RunResult r = run_in_child(sc, cand, o.tier);
         return r.verdict.kind == Verdict::Violation and r.verdict.cls == want;
      }, &st, o.tier == 0 ? 400 : 1200);
      RunResult fin = run_in_child(sc, small, o.tier);
      if (fin.verdict.kind != Verdict::Violation or fin.verdict.cls != want) { small = plan; fin = a; }
      std::string safe = want;
      for (auto& ch : safe) if (not (std::isalnum((unsigned char) ch) or ch == '-' or ch == '_' or ch == '.')) ch = '_';
      if (safe.size() > 90) safe.resize(90);
      std::string path = o.replay_dir + "/" + safe + "-" + std::to_string((unsigned long long) plan.seed) + ".json";
      std::string extra = "  \"found_at\": {\"verif_seed\": " + std::to_string((long long) o.seed) + ", \"index\": " + std::to_string(c.index) +
         ", \"tier\": \"" + (o.tier ? "thorough" : "quick") + "\"},\n" +
         "  \"shrink\": {\"ops_before\": " + std::to_string(st.from) + ", \"ops_after\": " + std::to_string(small.ops.size()) + ", \"tests\": " + std::to_string(st.tests) + "},\n";
      write_file(path, replay_json(small, fin.verdict, fin.digest, extra));
      // Gate 2: fresh process replay reproduces the same class.
      int rc = fresh_replay(argv0, path);
      if (rc != 1) {
         gate_failures.push_back("fresh-process replay of " + path + " exited " + std::to_string(rc) + " (expected 1)");
         continue;
      }
      std::string abs = path;
      if (abs[0] != '/') { char cwd[4096]; if (getcwd(cwd, sizeof cwd)) abs = std::string(cwd) + "/" + path; }
      std::string entry = "{\"class\": \"" + json_escape(want) + "\", \"detail\": \"" + json_escape(fin.verdict.detail.substr(0, 400)) +
         "\", \"replay\": \"" + json_escape(abs) + "\", \"ops\": " + std::to_string(small.ops.size()) + "}";
      if (const Known* k = match_known(known, sc.id(), want)) {
         rep.known_lines.push_back(std::string("KNOWN-FINDING: property=") + sc.id() + " " + k->what + " [" + want + "] replay=" + abs);
         rep.known_json.push_back(entry);
      } else {
         rep.violation_lines.push_back(std::string("VIOLATION property=") + sc.id() + " replay=" + abs);
         rep.violation_json.push_back(entry);
         std::printf("  class %s\n    %s\n    minimised %zu -> %zu ops in %d tests\n", want.c_str(), fin.verdict.detail.c_str(), st.from, small.ops.size(), st.tests);
      }
      reported_classes.insert(want);
   }

   // The warm-up program killed its probe child twice in the same way: a fixed, legal program that the library does not
   // survive.  Reported with a replay file of its own (replaying it runs the warm-up in a fresh process).
   if (g_warm_up_failure.failed) {
      Plan wp;
      wp.prop = sc.id();
      wp.seed = 0;
      wp.set("warmup", 1);
      Verdict wv = Verdict::fail(std::string(sc.id()) + g_warm_up_failure.kind + "/warm-up",
                                 "the warm-up program (two Lexicons side by side, every factory once, printing, destruction) does not complete: " + g_warm_up_failure.detail);
      std::string safe = wv.cls;
      for (auto& ch : safe) if (not std::isalnum((unsigned char) ch) and ch != '-' and ch != '_') ch = '_';
      if (safe.size() > 90) safe.resize(90);
      const std::string path = o.replay_dir + "/" + safe + "-warmup.json";
      mkdirs(o.replay_dir);
      write_file(path, replay_json(wp, wv, 0, ""));
      const int rc = fresh_replay(argv0, path);
      if (rc != 1) gate_failures.push_back("fresh-process replay of " + path + " exited " + std::to_string(rc) + " (expected 1)");
      else {
         std::string abs = path;
         if (abs[0] != '/') { char cwd[4096]; if (getcwd(cwd, sizeof cwd)) abs = std::string(cwd) + "/" + path; }
         std::string entry = "{\"class\": \"" + json_escape(wv.cls) + "\", \"detail\": \"" + json_escape(wv.detail.substr(0, 400)) + "\", \"replay\": \"" + json_escape(abs) + "\", \"ops\": 0}";
         if (const Known* k = match_known(known, sc.id(), wv.cls)) {
            rep.known_lines.push_back(std::string("KNOWN-FINDING: property=") + sc.id() + " " + k->what + " [" + wv.cls + "] replay=" + abs);
            rep.known_json.push_back(entry);
         } else {
            rep.violation_lines.push_back(std::string("VIOLATION property=") + sc.id() + " replay=" + abs);
            rep.violation_json.push_back(entry);
            std::printf("  class %s\n    %s\n", wv.cls.c_str(), wv.detail.c_str());
         }
      }
   }

   // A candidate that cannot be reproduced is not believed.  It voids the whole check only when nothing else was
   // reproduced either: a violation that replays exactly stands on its own.
   for (auto& g : gate_failures) std::printf("  note: %s\n", g.c_str());
   if (not gate_failures.empty() and rep.violation_lines.empty() and rep.known_lines.empty()) {
      rep.harness_problem = true;
      rep.harness_msg = gate_failures.front();
   }
   // Likewise the determinism recheck: a digest that differs in a fresh process voids the check, unless violations were
   // reproduced exactly (a library that keeps state from one run to the next in static storage makes runs depend on
   // their predecessors, and is reported for what it does).
   if (recheck_mismatch > 0) {
      const std::string msg = "determinism recheck failed for " + std::to_string(recheck_mismatch) + " of " + std::to_string(rechecked) + " seeds";
      if (rep.violation_lines.empty()) { rep.harness_problem = true; rep.harness_msg = msg; }
      else std::printf("  note: %s (violations above were reproduced exactly and stand)\n", msg.c_str());
   }

   // -- re-confirm known findings that carry their own replay plan (generators avoid these triggers)
   for (auto& k : known) {
      if (k.status != "known" or k.property != sc.id() or k.replay.empty()) continue;
      bool already = false;
      for (auto& c : reported_classes) if (signature_matches(k.signature, c)) already = true;
      if (already) continue;
      Plan plan;
      std::string cls, dig;
      if (not load_replay(k.replay, plan, cls, dig)) { std::fprintf(stderr, "warning: cannot load %s\n", k.replay.c_str()); continue; }
      RunResult r = run_in_child(sc, plan, o.tier);
      if (r.verdict.kind == Verdict::Violation and signature_matches(k.signature, r.verdict.cls)) {
         rep.known_lines.push_back(std::string("KNOWN-FINDING: property=") + sc.id() + " " + k.what + " [" + r.verdict.cls + "] replay=" + k.replay);
         rep.known_json.push_back("{\"class\": \"" + json_escape(r.verdict.cls) + "\", \"replay\": \"" + json_escape(k.replay) + "\"}");
      } else if (r.verdict.kind == Verdict::Violation) {
         // a different failure on a known trigger is a new violation
         std::string path = o.replay_dir + "/known-trigger-changed-" + std::to_string(fnv(k.replay) % 100000) + ".json";
         write_file(path, replay_json(plan, r.verdict, r.digest, ""));
         rep.violation_lines.push_back(std::string("VIOLATION property=") + sc.id() + " replay=" + path);
         rep.violation_json.push_back("{\"class\": \"" + json_escape(r.verdict.cls) + "\", \"replay\": \"" + json_escape(path) + "\"}");
      }
   }

   const double wall = seconds_since(t0);

   // -- evidence
   if (not o.evidence_path.empty()) {
      auto names = sc.probe_names();
      std::ostringstream ev;
      ev << "{\n";
      ev << "  \"property_id\": \"" << sc.id() << "\",\n";
      ev << "  \"tier\": \"" << (o.tier ? "thorough" : "quick") << "\",\n";
      ev << "  \"seed\": " << (long long) o.seed << ",\n";
      ev << "  \"level\": \"exploration\",\n";
      ev << "  \"wall_s\": " << wall << ",\n";
      ev << "  \"violations\": " << rep.violation_lines.size() << ",\n";
      ev << "  \"assumptions\": [";
      { auto as = sc.assumptions(); for (size_t i = 0; i < as.size(); ++i) ev << (i ? ", " : "") << "\"" << json_escape(as[i]) << "\""; }
      ev << "],\n";
      ev << "  \"coverage\": {\n";
      ev << "    \"evaluations\": " << bs.runs << ",\n";
      ev << "    \"distinct_nontrivial\": " << bs.digests.size() << ",\n";
      ev << "    \"rule\": \"" << json_escape(sc.rule()) << " Distinct = distinct event-log digests (every operation, result identity and oracle reading is folded in) among runs that executed at least one operation relevant to the property.\",\n";
      ev << "    \"samples\": [";
      {
         // a few actual plans: first prologue, and first search runs
         std::vector<size_t> idx;
         if (nprologue > 0) idx.push_back(0);
         for (size_t k = 0; k < 3 and nprologue + k < total; ++k) idx.push_back(nprologue + k);
         for (size_t k = 0; k < idx.size(); ++k) ev << (k ? ",\n      " : "\n      ") << sample_json(sc, plan_for(sc, o, idx[k], nprologue));
      }
      ev << "\n    ],\n";
      ev << "    \"exhaustive\": false,\n";
      ev << "    \"technique\": \"deterministic simulation with fault injection (seeded search over operation histories, heap layouts, interleavings and fault placements; reference model as oracle)\",\n";
      ev << "    \"flavour\": \"" SIM_FLAVOUR "\",\n";
      ev << "    \"runs\": {\"prologue\": " << std::min<size_t>(nprologue, total) << ", \"seeded_search_planned\": " << nsearch
         << ", \"executed\": " << bs.runs << ", \"ok\": " << bs.ok << ", \"skipped_budget\": " << bs.skipped
         << ", \"violating\": " << bs.violations << ", \"crashed\": " << bs.crashes << ", \"relevant\": " << bs.relevant
         << ", \"deadline_hit\": " << (bs.deadline_hit ? "true" : "false") << "},\n";
      ev << "    \"runs_per_hour\": " << (batch_s > 0 ? (long long) (bs.runs * 3600.0 / batch_s) : 0) << ",\n";
      ev << "    \"seeds_per_hour\": " << (batch_s > 0 ? (long long) (bs.runs * 3600.0 / batch_s) : 0) << ",\n";
      ev << "    \"seed_derivation\": \"run_seed(i) = splitmix64(VERIF_SEED xor fnv(property) xor i*golden); indices 0.." << (total ? total - 1 : 0) << "\",\n";
      ev << "    \"simulated_time\": {\"unit\": \"scheduler steps (the system under test has no clock)\", \"steps\": " << bs.steps << "},\n";
      ev << "    \"heap\": {\"sut_allocations\": " << bs.allocs << ", \"served_from_freed_block\": " << bs.reused << "},\n";
      ev << "    \"faults\": {\"allocation_failure_fired\": " << bs.faults_fired;
      for (size_t i = 0; i < names.size(); ++i) if (names[i].rfind("fault.", 0) == 0) ev << ", \"" << json_escape(names[i].substr(6)) << "\": " << (i < bs.probes.size() ? bs.probes[i] : 0);
      ev << "},\n";
      ev << "    \"probes\": {";
      { bool first = true; for (size_t i = 0; i < names.size(); ++i) if (names[i].rfind("fault.", 0) != 0) { ev << (first ? "" : ", ") << "\"" << json_escape(names[i]) << "\": " << (i < bs.probes.size() ? bs.probes[i] : 0); first = false; } }
      ev << "},\n";
      ev << "    \"probes_stuck_at_zero\": [";
      { bool first = true; for (size_t i = 0; i < names.size(); ++i) if ((i >= bs.probes.size() or bs.probes[i] == 0) and names[i].rfind("opt.", 0) != 0) { ev << (first ? "" : ", ") << "\"" << json_escape(names[i]) << "\""; first = false; } }
      ev << "],\n";
      ev << "    \"determinism_recheck\": {\"seeds_rerun_in_fresh_child\": " << rechecked << ", \"mismatches\": " << recheck_mismatch << "},\n";
      ev << "    \"components\": {\"real\": [\"libipr (src/*.cxx and include/ipr/* compiled from /repo's working tree)\", \"libstdc++ containers and iostream formatting\"], "
            "\"simulated\": [\"global allocator (fixed-address arena, seeded placement, injected bad_alloc)\", \"std::streambuf handed to ipr::Printer\", \"scheduler choosing the next client / operation\"], "
            "\"absent_in_sut\": [\"clock\", \"network\", \"disk\"]},\n";
      ev << "    \"known_findings_confirmed\": [";
      for (size_t i = 0; i < rep.known_json.size(); ++i) ev << (i ? ", " : "") << rep.known_json[i];
      ev << "],\n";
      ev << "    \"violations_found\": [";
      for (size_t i = 0; i < rep.violation_json.size(); ++i) ev << (i ? ", " : "") << rep.violation_json[i];
      ev << "],\n";
      ev << "    \"harness_problem\": \"" << json_escape(rep.harness_msg) << "\"\n";
      ev << "  }\n}\n";
      size_t slash = o.evidence_path.rfind('/');
      if (slash != std::string::npos) mkdirs(o.evidence_path.substr(0, slash));
      write_file(o.evidence_path, ev.str());
   }

   std::printf("[%s] runs=%llu ok=%llu skipped=%llu violating=%llu crashed=%llu distinct=%zu steps=%llu wall=%.1fs (%.0f runs/s)\n",
               sc.id(), (unsigned long long) bs.runs, (unsigned long long) bs.ok, (unsigned long long) bs.skipped,
               (unsigned long long) bs.violations, (unsigned long long) bs.crashes, bs.digests.size(),
               (unsigned long long) bs.steps, wall, batch_s > 0 ? bs.runs / batch_s : 0.0);
   {
      std::string line = "  slowest runs:";
      for (auto& sl : bs.slowest) { char b[64]; std::snprintf(b, sizeof b, " index=%zu %.2fs", sl.second, sl.first); line += b; }
      std::printf("%s\n", line.c_str());
   }
   {
      auto names = sc.probe_names();
      std::string line = "  probes:";
      for (size_t i = 0; i < names.size(); ++i) line += " " + names[i] + "=" + std::to_string((unsigned long long) (i < bs.probes.size() ? bs.probes[i] : 0));
      std::printf("%s\n", line.c_str());
      for (size_t i = 0; i < names.size(); ++i)
         if ((i >= bs.probes.size() or bs.probes[i] == 0) and names[i].rfind("opt.", 0) != 0)
            std::printf("  warning: probe %s stuck at zero\n", names[i].c_str());
   }
   for (auto& l : rep.known_lines) std::printf("%s\n", l.c_str());
   if (rep.harness_problem) {
      std::printf("HARNESS-PROBLEM property=%s %s\n", sc.id(), rep.harness_msg.c_str());
      std::fflush(stdout);
      return 2;
   }
   for (auto& l : rep.violation_lines) std::printf("%s\n", l.c_str());
   std::fflush(stdout);
   if (bs.runs == 0) { std::printf("HARNESS-PROBLEM property=%s no run executed\n", sc.id()); return 2; }
   return rep.violation_lines.empty() ? 0 : 1;
}

// Determinism self-test: n seeds, each executed twice in different processes with different
// worker counts; digests must agree.
int cmd_determinism(const Options& o0, size_t n)
{
   Options o = o0;
   Scenario* scp = find_scenario(o.prop);
   if (scp == nullptr) return 2;
   const Scenario& sc = *scp;
   const size_t nprologue = sc.prologue_count(o.tier);
   const size_t total = nprologue + n;
   o.no_recheck = true;
   warm_up_once();
   std::map<size_t, uint64_t> ref;
   size_t mismatches = 0;
   int counts[] = { 1, 8, 16 };
   for (int wc : counts) {
      BatchStats bs;
      // keep every digest: abuse recheck map by running the batch and then re-running all in children is too slow;
      // instead run the batch with a custom absorb through run_batch and compare per index via candidates.
      // Simple approach: execute sequentially in forked children grouped by worker count emulation.
      (void) bs;
      std::vector<pid_t> kids;
      std::vector<int> fds;
      for (int w = 0; w < wc; ++w) {
         int p[2];
         if (pipe(p) != 0) return 2;
         std::fflush(stdout);
         pid_t pid = fork();
         if (pid == 0) {
            close(p[0]);
            if (not std::getenv("VERIF_KEEP_STDERR")) {
               int nul = open("/dev/null", O_WRONLY);
               if (nul >= 0) { dup2(nul, 2); close(nul); }
            }
            for (size_t i = size_t(w); i < total; i += size_t(wc)) {
               Plan plan = plan_for(sc, o, i, nprologue);
               RunResult r = run_here(sc, plan, false, o.tier);
               std::string line = std::to_string(i) + " " + std::to_string((unsigned long long) r.digest) + "\n";
               (void) !write(p[1], line.data(), line.size());
            }
            _exit(0);
         }
         close(p[1]);
         kids.push_back(pid);
         fds.push_back(p[0]);
      }
      for (size_t k = 0; k < kids.size(); ++k) {
         std::string buf;
         char tmp[65536];
         ssize_t m;
         while ((m = read(fds[k], tmp, sizeof tmp)) > 0) buf.append(tmp, size_t(m));
         close(fds[k]);
         int st;
         waitpid(kids[k], &st, 0);
         std::stringstream ss(buf);
         size_t idx;
         unsigned long long dg;
         while (ss >> idx >> dg) {
            auto it = ref.find(idx);
            if (it == ref.end()) ref[idx] = dg;
            else if (it->second != dg) { ++mismatches; std::printf("MISMATCH prop=%s index=%zu workers=%d %llu vs %llu\n", sc.id(), idx, wc, (unsigned long long) it->second, dg); }
         }
      }
   }
   std::printf("[%s] determinism: %zu indices x 3 worker counts, %zu mismatches, %zu compared\n", sc.id(), total, mismatches, ref.size());
   return mismatches == 0 ? 0 : 2;
}

} // anonymous
} // sim

static void usage()
{
   std::fprintf(stderr,
      "usage: ipr-sim check <ID> [--tier quick|thorough] [--seed N] [--budget S] [--workers W] [--evidence FILE] [--replays DIR] [--known FILE] [--runs N]\n"
      "       ipr-sim replay <file> [--verbose]\n"
      "       ipr-sim determinism <ID> [--n N] [--tier T]\n"
      "       ipr-sim list\n");
}

int main(int argc, char** argv)
{
   using namespace sim;
   if (argc < 2) { usage(); return 2; }
   // make stack overflows quick and bounded
   struct rlimit rl;
   if (getrlimit(RLIMIT_STACK, &rl) == 0) { rl.rlim_cur = std::min<rlim_t>(rl.rlim_max, 8u << 20); setrlimit(RLIMIT_STACK, &rl); }
   heap::init();
   std::string cmd = argv[1];
   Options o;
   if (const char* s = std::getenv("VERIF_SEED")) o.seed = std::strtoull(s, nullptr, 10);
   if (const char* s = std::getenv("VERIF_TIER")) o.tier = std::string(s) == "thorough" ? 1 : 0;
   if (const char* s = std::getenv("VERIF_BUDGET_S")) o.budget_s = std::atof(s);
   if (const char* s = std::getenv("VERIF_WORKERS")) o.workers = std::atoi(s);
   if (const char* s = std::getenv("VERIF_LOG_DIR")) g_log_dir = s;
   bool verbose = false;
   size_t n = 2000;
   std::vector<std::string> pos;
   for (int i = 2; i < argc; ++i) {
      std::string a = argv[i];
      auto next = [&]() -> std::string { return i + 1 < argc ? argv[++i] : ""; };
      if (a == "--tier") o.tier = next() == "thorough" ? 1 : 0;
      else if (a == "--seed") o.seed = std::strtoull(next().c_str(), nullptr, 10);
      else if (a == "--budget") o.budget_s = std::atof(next().c_str());
      else if (a == "--workers") o.workers = std::atoi(next().c_str());
      else if (a == "--evidence") o.evidence_path = next();
      else if (a == "--replays") o.replay_dir = next();
      else if (a == "--known") o.known_path = next();
      else if (a == "--runs") o.max_runs = std::atol(next().c_str());
      else if (a == "--n") n = std::strtoull(next().c_str(), nullptr, 10);
      else if (a == "--verbose") verbose = true;
      else if (a == "--no-recheck") o.no_recheck = true;
      else pos.push_back(a);
   }
   if (cmd == "list") {
      for (auto s : all_scenarios()) std::printf("%s\t%s\n", s->id(), s->title());
      return 0;
   }
   if (cmd == "check" and not pos.empty()) { o.prop = pos[0]; return cmd_check(o, argv[0]); }
   if (cmd == "replay" and not pos.empty()) return cmd_replay(pos[0], verbose);
   if (cmd == "dump" and pos.size() >= 2) {
      // dump <ID> <index> [expected_class]: the replay file of one plan of the batch (prologue or seeded search)
      o.prop = pos[0];
      Scenario* sc = find_scenario(o.prop);
      if (sc == nullptr) return 2;
      const size_t np = sc->prologue_count(o.tier);
      Plan p = plan_for(*sc, o, std::strtoull(pos[1].c_str(), nullptr, 10), np);
      Verdict v;
      v.cls = pos.size() > 2 ? pos[2] : "";
      std::fputs(replay_json(p, v, 0, "").c_str(), stdout);
      return 0;
   }
   if (cmd == "determinism" and not pos.empty()) { o.prop = pos[0]; return cmd_determinism(o, n); }
   usage();
   return 2;
}

#include "plan.hpp"
#include <cstdio>
#include <cstdlib>
#include <cctype>
#include <algorithm>

namespace sim {

std::string json_escape(const std::string& s)
{
   std::string r;
   for (unsigned char c : s) {
      switch (c) {
      case '"': r += "\\\""; break;
      case '\\': r += "\\\\"; break;
      case '\n': r += "\\n"; break;
      case '\t': r += "\\t"; break;
      case '\r': r += "\\r"; break;
      default:
         if (c < 0x20 or c >= 0x7f) { char b[8]; std::snprintf(b, sizeof b, "\\u%04x", c); r += b; }
         else r += char(c);
      }
   }
   return r;
}

std::string plan_to_json(const Plan& p, const std::string& ind)
{
   std::string s = "{\n";
   s += ind + "  \"prop\": \"" + json_escape(p.prop) + "\",\n";
   s += ind + "  \"seed\": " + std::to_string((long long) p.seed) + ",\n";
   s += ind + "  \"cfg\": {";
   for (size_t i = 0; i < p.cfg.size(); ++i) {
      if (i) s += ", ";
      s += "\"" + json_escape(p.cfg[i].first) + "\": " + std::to_string((long long) p.cfg[i].second);
   }
   s += "},\n";
   s += ind + "  \"ops\": [";
   for (size_t i = 0; i < p.ops.size(); ++i) {
      const Op& o = p.ops[i];
      s += i ? ",\n" + ind + "    " : "\n" + ind + "    ";
      s += "[" + std::to_string(o.code);
      for (auto v : o.a) s += "," + std::to_string((long long) v);
      s += "," + std::to_string(o.fault) + "," + std::to_string(o.client) + "]";
   }
   s += p.ops.empty() ? "]\n" : "\n" + ind + "  ]\n";
   s += ind + "}";
   return s;
}

namespace {
   struct Parser {
      const std::string& t;
      size_t p = 0;
      bool ok = true;
      explicit Parser(const std::string& s) : t(s) { }
      void ws() { while (p < t.size() and std::isspace((unsigned char) t[p])) ++p; }
      bool eat(char c) { ws(); if (p < t.size() and t[p] == c) { ++p; return true; } return false; }
      Json value()
      {
         Json j;
         ws();
         if (p >= t.size()) { ok = false; return j; }
         char c = t[p];
         if (c == '{') {
            ++p; j.kind = Json::Obj;
            if (eat('}')) return j;
            do {
               ws();
               Json k = value();
               if (k.kind != Json::Str or not eat(':')) { ok = false; return j; }
               j.obj.emplace_back(k.s, value());
               if (not ok) return j;
            } while (eat(','));
            if (not eat('}')) ok = false;
         } else if (c == '[') {
            ++p; j.kind = Json::Arr;
            if (eat(']')) return j;
            do {
               j.arr.push_back(value());
               if (not ok) return j;
            } while (eat(','));
            if (not eat(']')) ok = false;
         } else if (c == '"') {
            ++p; j.kind = Json::Str;
            while (p < t.size() and t[p] != '"') {
               if (t[p] == '\\' and p + 1 < t.size()) {
                  ++p;
                  switch (t[p]) {
                  case 'n': j.s += '\n'; break;
                  case 't': j.s += '\t'; break;
                  case 'r': j.s += '\r'; break;
                  case 'u':
                     if (p + 4 < t.size()) { j.s += char(std::strtol(t.substr(p + 1, 4).c_str(), nullptr, 16)); p += 4; }
                     break;
                  default: j.s += t[p];
                  }
                  ++p;
               } else j.s += t[p++];
            }
            if (p >= t.size()) ok = false; else ++p;
         } else if (c == '-' or std::isdigit((unsigned char) c)) {
            size_t q = p;
            if (t[q] == '-') ++q;
            while (q < t.size() and std::isdigit((unsigned char) t[q])) ++q;
            j.kind = Json::Int;
            j.i = std::strtoll(t.substr(p, q - p).c_str(), nullptr, 10);
            // tolerate a fractional part (not produced by us)
            if (q < t.size() and t[q] == '.') { ++q; while (q < t.size() and std::isdigit((unsigned char) t[q])) ++q; }
            p = q;
         } else if (t.compare(p, 4, "true") == 0) { j.kind = Json::Bool; j.b = true; p += 4; }
         else if (t.compare(p, 5, "false") == 0) { j.kind = Json::Bool; j.b = false; p += 5; }
         else if (t.compare(p, 4, "null") == 0) { j.kind = Json::Null; p += 4; }
         else ok = false;
         return j;
      }
   };
}

bool json_parse(const std::string& text, Json& out)
{
   Parser ps(text);
   out = ps.value();
   return ps.ok;
}

bool plan_from(const Json& j, Plan& out)
{
   if (j.kind != Json::Obj) return false;
   out = Plan{ };
   out.prop = j.str_or("prop", "");
   out.seed = (uint64_t) j.int_or("seed", 0);
   if (auto c = j.find("cfg"); c and c->kind == Json::Obj)
      for (auto& kv : c->obj) if (kv.second.kind == Json::Int) out.cfg.emplace_back(kv.first, kv.second.i);
   auto ops = j.find("ops");
   if (ops == nullptr or ops->kind != Json::Arr) return false;
   for (auto& e : ops->arr) {
      if (e.kind != Json::Arr or e.arr.size() < 9) return false;
      Op o;
      o.code = int(e.arr[0].i);
      for (int k = 0; k < 6; ++k) o.a[k] = e.arr[1 + k].i;
      o.fault = int(e.arr[7].i);
      o.client = int(e.arr[8].i);
      out.ops.push_back(o);
   }
   return true;
}

bool plan_from_json(const std::string& text, size_t& pos, Plan& out)
{
   Json j;
   std::string sub = text.substr(pos);
   if (not json_parse(sub, j)) return false;
   return plan_from(j, out);
}

Plan shrink_plan(const Plan& original, const std::function<bool(const Plan&)>& fails,
                 ShrinkStats* st, int max_tests)
{
   Plan cur = original;
   int tests = 0;
   auto test = [&](const Plan& c) { if (tests >= max_tests) return false; ++tests; return fails(c); };

   // Phase 0: truncate after the failing point quickly (try prefixes by halving from the end).
   // Phase 1: ddmin on the operation list.
   size_t n = 2;
   while (cur.ops.size() >= 2 and tests < max_tests) {
      const size_t len = cur.ops.size();
      const size_t chunk = std::max<size_t>(1, len / n);
      bool reduced = false;
      // try removing each chunk (complements)
      for (size_t start = 0; start < len and tests < max_tests; start += chunk) {
         Plan cand = cur;
         const size_t stop = std::min(len, start + chunk);
         cand.ops.erase(cand.ops.begin() + start, cand.ops.begin() + stop);
         if (test(cand)) {
            cur = std::move(cand);
            n = std::max<size_t>(n - 1, 2);
            reduced = true;
            break;
         }
      }
      if (not reduced) {
         if (chunk == 1) break;
         n = std::min(len, n * 2);
      }
   }
   // last single-op removal sweep
   for (size_t i = cur.ops.size(); i-- > 0 and tests < max_tests; ) {
      if (cur.ops.size() <= 1) break;
      Plan cand = cur;
      cand.ops.erase(cand.ops.begin() + i);
      if (test(cand)) cur = std::move(cand);
   }
   // Phase 2: simplify each op: drop fault, client -> 0, arguments -> 0 / halves.
   for (size_t i = 0; i < cur.ops.size() and tests < max_tests; ++i) {
      if (cur.ops[i].fault != 0) { Plan c = cur; c.ops[i].fault = 0; if (test(c)) cur = std::move(c); }
      if (cur.ops[i].client != 0) { Plan c = cur; c.ops[i].client = 0; if (test(c)) cur = std::move(c); }
      for (int k = 0; k < 6 and tests < max_tests; ++k) {
         int64_t v = cur.ops[i].a[k];
         if (v == 0) continue;
         Plan c = cur; c.ops[i].a[k] = 0;
         if (test(c)) { cur = std::move(c); continue; }
         for (int64_t w = v / 2; w != 0 and tests < max_tests; w /= 2) {
            Plan d = cur; d.ops[i].a[k] = w;
            if (test(d)) { cur = std::move(d); break; }
         }
      }
   }
   // Phase 3: simplify configuration (each scenario clamps / interprets values itself).
   for (size_t i = 0; i < cur.cfg.size() and tests < max_tests; ++i) {
      if (cur.cfg[i].second == 0) continue;
      Plan c = cur; c.cfg[i].second = 0;
      if (test(c)) cur = std::move(c);
   }
   if (st) { st->tests = tests; st->from = original.ops.size(); st->to = cur.ops.size(); }
   return cur;
}

}

// A plan is the complete, replayable description of one simulated run:
// configuration integers, an operation list, and faults attached to operations.
#pragma once
#include <cstdint>
#include <string>
#include <vector>
#include <utility>
#include <functional>

namespace sim {

struct Op {
   int code = 0;
   int64_t a[6] = { 0, 0, 0, 0, 0, 0 };
   int fault = 0;          // k > 0: the k-th SUT allocation made by this op throws std::bad_alloc
   int client = 0;         // which simulated client executes it
   bool operator==(const Op&) const = default;
};

struct Plan {
   std::string prop;                                        // property id
   uint64_t seed = 0;                                       // run seed (heap policy stream etc.)
   std::vector<std::pair<std::string, int64_t>> cfg;       // named configuration integers
   std::vector<Op> ops;

   int64_t get(const std::string& k, int64_t dflt = 0) const
   {
      for (auto& kv : cfg) if (kv.first == k) return kv.second;
      return dflt;
   }
   void set(const std::string& k, int64_t v)
   {
      for (auto& kv : cfg) if (kv.first == k) { kv.second = v; return; }
      cfg.emplace_back(k, v);
   }
};

std::string plan_to_json(const Plan&, const std::string& indent = "");
// Parses the object produced by plan_to_json; returns false on malformed input.
bool plan_from_json(const std::string& text, size_t& pos, Plan& out);

// --- tiny JSON helpers (enough for replay and known-finding files) -------------------
struct Json {
   enum Kind { Null, Bool, Int, Str, Arr, Obj } kind = Null;
   bool b = false;
   int64_t i = 0;
   std::string s;
   std::vector<Json> arr;
   std::vector<std::pair<std::string, Json>> obj;
   const Json* find(const std::string& k) const
   {
      for (auto& kv : obj) if (kv.first == k) return &kv.second;
      return nullptr;
   }
   std::string str_or(const std::string& k, const std::string& d) const
   {
      auto p = find(k); return p and p->kind == Str ? p->s : d;
   }
   int64_t int_or(const std::string& k, int64_t d) const
   {
      auto p = find(k); return p and p->kind == Int ? p->i : d;
   }
};
bool json_parse(const std::string& text, Json& out);
std::string json_escape(const std::string&);
bool plan_from(const Json&, Plan& out);

// Delta debugging over the operation list, followed by per-op simplification.
// `fails(plan)` must return true iff the candidate still fails with the same violation class.
struct ShrinkStats { int tests = 0; size_t from = 0, to = 0; };
Plan shrink_plan(const Plan& original, const std::function<bool(const Plan&)>& fails,
                 ShrinkStats* st = nullptr, int max_tests = 600);

}

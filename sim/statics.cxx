// Static-storage monitor (C20, layer 2): finds the writable static objects of libipr in
// this executable (by symbol: everything whose mangled name lives in namespace ipr,
// including function-local statics and their guard variables) and lets the harness watch
// them for writes.
#include "statics.hpp"
#include <elf.h>
#include <cstdio>
#include <cstring>
#include <fstream>
#include <sstream>

extern "C" char __executable_start;

namespace sim {

static bool is_ipr_symbol(const char* n)
{
   // _ZN3ipr..., _ZZN3ipr... (function-local static), _ZGVN3ipr / _ZGVZN3ipr (guards), _ZL... internal linkage with N3ipr inside
   return std::strstr(n, "N3ipr") != nullptr;
}

std::vector<StaticSym> writable_ipr_statics(size_t* tls_count)
{
   std::vector<StaticSym> out;
   if (tls_count) *tls_count = 0;
   std::ifstream in("/proc/self/exe", std::ios::binary);
   if (not in) return out;
   std::stringstream ss;
   ss << in.rdbuf();
   const std::string img = ss.str();
   if (img.size() < sizeof(Elf64_Ehdr)) return out;
   auto eh = reinterpret_cast<const Elf64_Ehdr*>(img.data());
   if (std::memcmp(eh->e_ident, ELFMAG, SELFMAG) != 0 or eh->e_ident[EI_CLASS] != ELFCLASS64) return out;
   auto sh = reinterpret_cast<const Elf64_Shdr*>(img.data() + eh->e_shoff);
   const Elf64_Shdr* symtab = nullptr;
   for (int i = 0; i < eh->e_shnum; ++i) if (sh[i].sh_type == SHT_SYMTAB) symtab = &sh[i];
   if (symtab == nullptr) return out;
   const char* strtab = img.data() + sh[symtab->sh_link].sh_offset;
   auto syms = reinterpret_cast<const Elf64_Sym*>(img.data() + symtab->sh_offset);
   const size_t n = symtab->sh_size / sizeof(Elf64_Sym);
   uintptr_t bias = 0;
   for (size_t i = 0; i < n; ++i)
      if (std::strcmp(strtab + syms[i].st_name, "__executable_start") == 0)
         bias = reinterpret_cast<uintptr_t>(&__executable_start) - syms[i].st_value;
   for (size_t i = 0; i < n; ++i) {
      const Elf64_Sym& s = syms[i];
      const int type = ELF64_ST_TYPE(s.st_info);
      if (type != STT_OBJECT and type != STT_TLS) continue;
      if (s.st_shndx == SHN_UNDEF or s.st_shndx >= eh->e_shnum or s.st_size == 0) continue;
      const Elf64_Shdr& sec = sh[s.st_shndx];
      if (not (sec.sh_flags & SHF_WRITE)) continue;
      const char* name = strtab + s.st_name;
      if (not is_ipr_symbol(name)) continue;
      // .data.rel.ro is writable only until relocation (RELRO): constants with relocated pointers, not mutable state
      const char* secname = img.data() + sh[eh->e_shstrndx].sh_offset + sec.sh_name;
      if (std::strncmp(secname, ".data.rel.ro", 12) == 0) continue;
      if (type == STT_TLS) { if (tls_count) ++*tls_count; continue; }
      out.push_back({ bias + s.st_value, size_t(s.st_size), name, secname });
   }
   return out;
}

}

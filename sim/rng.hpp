// Deterministic PRNG: one integer decides everything.
// splitmix64 for seed derivation, xoshiro256** for the per-run stream.
#pragma once
#include <cstdint>
#include <cstddef>

namespace sim {

inline uint64_t splitmix64(uint64_t& x)
{
   uint64_t z = (x += 0x9e3779b97f4a7c15ull);
   z = (z ^ (z >> 30)) * 0xbf58476d1ce4e5b9ull;
   z = (z ^ (z >> 27)) * 0x94d049bb133111ebull;
   return z ^ (z >> 31);
}

inline uint64_t mix64(uint64_t x)
{
   uint64_t s = x;
   return splitmix64(s);
}

struct Rng {
   uint64_t s[4];
   explicit Rng(uint64_t seed = 1) { reseed(seed); }
   void reseed(uint64_t seed)
   {
      uint64_t x = seed;
      for (auto& w : s) w = splitmix64(x);
   }
   static uint64_t rotl(uint64_t x, int k) { return (x << k) | (x >> (64 - k)); }
   uint64_t next()
   {
      const uint64_t result = rotl(s[1] * 5, 7) * 9;
      const uint64_t t = s[1] << 17;
      s[2] ^= s[0]; s[3] ^= s[1]; s[1] ^= s[2]; s[0] ^= s[3];
      s[2] ^= t; s[3] = rotl(s[3], 45);
      return result;
   }
   // uniform in [0, n), n > 0
   uint64_t below(uint64_t n) { return n <= 1 ? 0 : next() % n; }
   // uniform in [lo, hi]
   int64_t range(int64_t lo, int64_t hi) { return lo + (int64_t) below((uint64_t)(hi - lo + 1)); }
   bool chance(unsigned num, unsigned den) { return below(den) < num; }
   template<typename T, size_t N> const T& pick(const T (&a)[N]) { return a[below(N)]; }
};

// 64-bit FNV-1a style rolling digest used for event logs.
struct Digest {
   uint64_t h = 0xcbf29ce484222325ull;
   void byte(unsigned char b) { h ^= b; h *= 0x100000001b3ull; }
   void u64(uint64_t v) { for (int i = 0; i < 8; ++i) byte((unsigned char)(v >> (8 * i))); }
   void bytes(const void* p, size_t n) { auto c = (const unsigned char*) p; for (size_t i = 0; i < n; ++i) byte(c[i]); }
   void str(const char* s) { while (*s) byte((unsigned char) *s++); byte(0); }
   uint64_t value() const { return mix64(h); }
};

}

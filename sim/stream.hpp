// Simulated output stream: the seam for F-stream.  A std::streambuf with a harness-owned
// buffer; per run the plan decides capacity before failure, the failure mode (overflow
// returns eof -> badbit, or throws), whether the ostream has exceptions(badbit) set, and the
// initial formatting state of the stream.
#pragma once
#include "heap.hpp"
#include <ostream>
#include <streambuf>
#include <string>
#include <stdexcept>

namespace sim {

struct SimStreamFailure : std::runtime_error {
   SimStreamFailure() : std::runtime_error("simulated stream failure") { }
};

struct SimStreambuf : std::streambuf {
   std::string data;                 // everything accepted so far (harness memory)
   long capacity = -1;               // bytes accepted before failing; -1: never fails
   bool throwing = false;            // fail by throwing instead of returning eof
   unsigned long failures = 0;       // number of refused writes

   bool room() const { return capacity < 0 or long(data.size()) < capacity; }

protected:
   int_type overflow(int_type ch) override
   {
      HarnessScope h;
      if (traits_type::eq_int_type(ch, traits_type::eof())) return traits_type::not_eof(ch);
      if (not room()) {
         ++failures;
         if (throwing) throw SimStreamFailure();
         return traits_type::eof();
      }
      data.push_back(traits_type::to_char_type(ch));
      return ch;
   }
   std::streamsize xsputn(const char* s, std::streamsize n) override
   {
      HarnessScope h;
      std::streamsize done = 0;
      while (done < n) {
         if (not room()) {
            ++failures;
            if (throwing) throw SimStreamFailure();
            break;
         }
         data.push_back(s[done++]);
      }
      return done;
   }
};

// Formatting state handed to the printer, and the comparison of it afterwards.
struct StreamState {
   std::ios_base::fmtflags flags;
   char fill;
   std::streamsize width;
   std::streamsize precision;
   bool operator==(const StreamState&) const = default;
};

inline StreamState state_of(const std::ostream& os) { return { os.flags(), os.fill(), os.width(), os.precision() }; }

// style: integer from the plan selecting an unusual-but-legal initial state
inline void apply_style(std::ostream& os, uint64_t style)
{
   switch (style % 8) {
   case 0: break;                                            // default state
   case 1: os << std::hex; break;
   case 2: os << std::oct << std::showbase; break;
   case 3: os.fill('*'); break;
   case 4: os << std::uppercase << std::showpos; break;
   case 5: os << std::left; os.precision(3); break;
   case 6: os << std::hex << std::showbase << std::uppercase; os.fill('#'); break;
   default: os << std::boolalpha << std::internal; break;
   }
}

}

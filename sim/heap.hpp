// Simulated heap: the seam for address layout (A) and allocation failure (F-alloc).
//
// The global operator new/delete family is replaced at link time (heap.cxx).  While the
// "SUT scope" flag is raised, allocations go to a fixed-address arena under a seeded
// placement policy; everything else goes to malloc.  Deallocation routes by address.
#pragma once
#include <cstdint>
#include <cstddef>

namespace sim {

extern thread_local int g_sut_depth;   // >0: allocations made by this thread belong to the system under test

struct SutScope {
   SutScope() { ++g_sut_depth; }
   ~SutScope() { --g_sut_depth; }
   SutScope(const SutScope&) = delete;
};

// Temporarily leave the SUT scope (used by harness callbacks invoked from inside ipr,
// e.g. the simulated stream buffer).
struct HarnessScope {
   int saved;
   HarnessScope() : saved(g_sut_depth) { g_sut_depth = 0; }
   ~HarnessScope() { g_sut_depth = saved; }
   HarnessScope(const HarnessScope&) = delete;
};

namespace heap {
   enum Policy : int { Ascending = 0, Descending = 1, Scatter = 2, Lifo = 3, PolicyCount = 4 };
   const char* policy_name(int);

   constexpr int max_owners = 9;          // eight for clients, the last one for the process (see process_owner)
   // The last sub-arena is never reset: it receives what the library allocates once per process (lazily initialised
   // function-local statics) while the warm-up run executes, before the first simulated run.  Leak accounting never looks at it.
   constexpr int process_owner = max_owners - 1;

   struct Stats {
      uint64_t allocs = 0;        // SUT allocations served
      uint64_t frees = 0;
      uint64_t bytes = 0;         // bytes requested
      uint64_t reused = 0;        // allocations served from a previously freed block (ABA)
      uint64_t faults_fired = 0;  // injected bad_alloc
      uint64_t large = 0;         // allocations in the large region
   };

   bool available();                       // false in the tsan flavour (no arena)
   void init();                            // map the arena (idempotent)
   void reset(uint64_t seed, int policy);  // start of a run: empty arena, fresh policy stream
   void set_owner(int owner);              // sub-arena used for subsequent SUT allocations
   void set_policy(int policy);            // switch the placement policy in the middle of a run (per client)
   int  policy();
   // What a fresh SUT block contains before its owner writes to it: 1 zero bytes, 2 0xFF, 3 the digit '5', 4 pseudo-random bytes.
   // Every block is filled (reset picks a mode per owner from the seed), so nothing a run reads depends on earlier runs, and code
   // that reads memory it never wrote sees different bytes under different modes.
   enum Fill : int { FillZero = 1, FillOnes = 2, FillDigit = 3, FillRandom = 4, FillCount = 4 };
   void set_fill(int owner, int mode);
   int  fill(int owner);
   int  owner();
   void begin_op(uint32_t op_index);       // allocations are tagged with this op; per-op counter reset
   void arm_fault(uint32_t k);             // the k-th SUT allocation of the current op throws bad_alloc (0 = disarm)
   bool fault_fired();                     // since the last arm_fault
   uint32_t op_allocs();                   // SUT allocations since begin_op
   bool exhausted();                       // arena ran out (harness budget, not a property verdict)

   bool in_arena(const void*);
   bool is_static(const void*);            // address lies inside the executable image (constants of the library, harness globals)
   int  owner_of(const void*);             // -1 if not in the arena
   bool is_live_block_interior(const void*); // address lies inside the user area of a live block

   size_t live_count(int owner = -1);
   uint64_t live_bytes(int owner = -1);
   struct LiveInfo { const void* ptr; uint32_t size; uint32_t op; int owner; uint64_t serial; };
   // Copies up to max entries describing live blocks (oldest first is not guaranteed).
   size_t live_blocks(LiveInfo* out, size_t max, int owner = -1);

   const Stats& stats();
   uint64_t serial();                      // serial number of the most recent SUT allocation (monotonic within a run)

   // Harness-driven arena traffic that moves addresses around ("noise").
   void* noise_alloc(size_t n);
   void  noise_free(void* p);
}
}

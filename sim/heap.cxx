// Simulated heap implementation.  This translation unit is compiled WITHOUT
// -fsanitize=address (it must touch block headers that are poisoned for everyone else);
// with -DSIM_ASAN it drives the AddressSanitizer shadow by hand so that stale and
// out-of-bounds accesses by the library still trap ("use-after-poison").
#include "heap.hpp"
#include "rng.hpp"
#include <new>
#include <cstdlib>
#include <cstring>
#include <cstdio>
#include <sys/mman.h>
#include <unistd.h>

#if defined(SIM_ASAN)
extern "C" void __asan_poison_memory_region(void const volatile*, size_t);
extern "C" void __asan_unpoison_memory_region(void const volatile*, size_t);
#  define POISON(p, n)   __asan_poison_memory_region((p), (n))
#  define UNPOISON(p, n) __asan_unpoison_memory_region((p), (n))
#else
#  define POISON(p, n)   ((void)0)
#  define UNPOISON(p, n) ((void)0)
#endif

extern "C" char __executable_start;
extern "C" char _end;

namespace sim {
thread_local int g_sut_depth = 0;
namespace heap {
   bool is_static(const void* p)
   {
      auto a = reinterpret_cast<uintptr_t>(p);
      return a >= reinterpret_cast<uintptr_t>(&__executable_start) and a < reinterpret_cast<uintptr_t>(&_end);
   }
}
}

#if defined(SIM_NO_ARENA)
// ---------------------------------------------------------------------------------
// tsan flavour: no arena, the stock allocator (and TSan's interceptors) stay in place.
// ---------------------------------------------------------------------------------
namespace sim::heap {
   static Stats g_stats;
   const char* policy_name(int) { return "stock"; }
   bool available() { return false; }
   void init() { }
   void reset(uint64_t, int) { }
   void set_owner(int) { }
   int owner() { return 0; }
   void set_policy(int) { }
   int policy() { return 0; }
   void set_fill(int, int) { }
   int fill(int) { return 0; }
   void begin_op(uint32_t) { }
   void arm_fault(uint32_t) { }
   bool fault_fired() { return false; }
   uint32_t op_allocs() { return 0; }
   bool exhausted() { return false; }
   bool in_arena(const void*) { return false; }
   int owner_of(const void*) { return -1; }
   bool is_live_block_interior(const void*) { return false; }
   size_t live_count(int) { return 0; }
   uint64_t live_bytes(int) { return 0; }
   size_t live_blocks(LiveInfo*, size_t, int) { return 0; }
   const Stats& stats() { return g_stats; }
   uint64_t serial() { return 0; }
   void* noise_alloc(size_t n) { return ::operator new(n); }
   void noise_free(void* p) { ::operator delete(p); }
}
#else

namespace sim::heap {
namespace {
   constexpr uintptr_t arena_base = 0x300000000000ull;
   constexpr size_t small_size = size_t(256) << 20;
   constexpr size_t large_size = size_t(768) << 20;
   // Far segments: small-block regions several GiB away from the main one, as a real process has them (brk heap,
   // mmap area, a second malloc arena).  Distances beyond 2^31 and 2^32 bytes between nodes are part of the address
   // adversity the scatter policy explores.
   constexpr int nsegments = 4;
   constexpr size_t far_size = size_t(64) << 20;
   // Offsets are chosen so that pairwise distances cover: under 2^31 (1.5 GiB), between 2^31 and 2^32 (2.5, 3 GiB),
   // exactly 2^32 plus or minus a little (so the low 32 bits of a distance can be zero or of either sign), and
   // over 2^32 with the low half above and below 2^31 (7, 8.5, 11 GiB).
   constexpr size_t segment_offset[nsegments] = { 0, (size_t(5) << 29), (size_t(4) << 30), (size_t(11) << 30) + 0x7000 };
   constexpr size_t owner_size = size_t(16) << 30;
   constexpr size_t arena_size = owner_size * max_owners;
   constexpr size_t large_threshold = 32 * 1024;
   constexpr size_t redzone = 32;
   constexpr uint64_t magic_live = 0x4c49564542304b21ull;   // "LIVEB0K!"
   constexpr uint64_t magic_free = 0x4652454542304b21ull;   // "FREEB0K!"
   constexpr int nclasses = 257;                            // (size/16) in 1..256, 0 = other

   struct Hdr {
      uint64_t magic;
      uint64_t serial;
      uint32_t req;          // bytes requested
      uint32_t cap;          // usable bytes (multiple of 16)
      uint32_t op;           // op index that allocated it
      uint16_t owner;
      uint8_t large;
      uint8_t seg;
      Hdr* next_free;
      Hdr* lprev;
      Hdr* lnext;
      uint64_t pad;
   };
   static_assert(sizeof(Hdr) == 64);

   struct Region {
      char* start = nullptr;
      char* end = nullptr;
      char* lo = nullptr;        // ascending frontier
      char* hi = nullptr;        // descending frontier
      Hdr* free_heads[nclasses] = { };
      uint32_t free_counts[nclasses] = { };
   };

   struct Owner {
      Region small[nsegments], large;
      Hdr* live_head = nullptr;
      size_t nlive = 0;
      uint64_t live_bytes = 0;
      bool dirty = false;
   };

   bool g_mapped = false;
   Owner g_owners[max_owners];
   int g_cur = 0;
   int g_policy = Ascending;
   int g_fill[max_owners] = { };
   Rng g_rng { 1 };
   uint64_t g_serial = 0;
   uint32_t g_op = 0;
   uint32_t g_op_allocs = 0;
   uint32_t g_armed = 0;
   bool g_fired = false;
   bool g_exhausted = false;
   Stats g_stats;

   inline size_t round16(size_t n) { return (n + 15) & ~size_t(15); }
   inline int class_of(size_t cap) { size_t c = cap / 16; return c <= 256 ? int(c) : 0; }
   inline char* user_of(Hdr* h) { return reinterpret_cast<char*>(h) + sizeof(Hdr); }
   inline Hdr* hdr_of(void* p) { return reinterpret_cast<Hdr*>(static_cast<char*>(p) - sizeof(Hdr)); }

   void die(const char* msg)
   {
      std::fprintf(stderr, "sim::heap fatal: %s\n", msg);
      std::fflush(stderr);
      _exit(2);
   }

   void region_reset(Region& r)
   {
      if (r.lo > r.start) {
         UNPOISON(r.start, size_t(r.lo - r.start));
         madvise(r.start, size_t(r.lo - r.start), MADV_DONTNEED);
      }
      if (r.hi < r.end) {
         // round down to page for madvise
         uintptr_t a = reinterpret_cast<uintptr_t>(r.hi) & ~uintptr_t(4095);
         UNPOISON(r.hi, size_t(r.end - r.hi));
         madvise(reinterpret_cast<void*>(a), size_t(r.end - reinterpret_cast<char*>(a)), MADV_DONTNEED);
      }
      r.lo = r.start;
      r.hi = r.end;
      std::memset(r.free_heads, 0, sizeof r.free_heads);
      std::memset(r.free_counts, 0, sizeof r.free_counts);
   }

   Hdr* pop_free(Region& r, size_t cap, bool random_pick)
   {
      const int c = class_of(cap);
      Hdr** link = &r.free_heads[c];
      if (c != 0) {
         if (*link == nullptr) return nullptr;
         if (random_pick and r.free_counts[c] > 1) {
            uint32_t skip = uint32_t(g_rng.below(r.free_counts[c] < 8 ? r.free_counts[c] : 8));
            while (skip-- > 0 and (*link)->next_free != nullptr) link = &(*link)->next_free;
         }
      } else {
         while (*link != nullptr and (*link)->cap != cap) link = &(*link)->next_free;
         if (*link == nullptr) return nullptr;
      }
      Hdr* h = *link;
      *link = h->next_free;
      --r.free_counts[c];
      return h;
   }

   Hdr* carve(Region& r, size_t cap, bool from_top, size_t gap)
   {
      const size_t total = sizeof(Hdr) + cap + redzone + gap;
      if (size_t(r.hi - r.lo) < total + 4096) return nullptr;
      char* block;
      if (from_top) { r.hi -= total; block = r.hi; }
      else { block = r.lo; r.lo += total; }
      // whole block poisoned; the user area is opened by the caller
      POISON(block, total);
      return reinterpret_cast<Hdr*>(block);
   }

   void* allocate(size_t n, bool nothrow)
   {
      ++g_op_allocs;
      if (g_armed != 0 and g_op_allocs == g_armed) {
         g_armed = 0;
         g_fired = true;
         ++g_stats.faults_fired;
         if (nothrow) return nullptr;
         throw std::bad_alloc();
      }
      if (n == 0) n = 1;
      if (n > 0x7fffffffu) {
         if (nothrow) return nullptr;
         throw std::bad_alloc();
      }
      const size_t cap = round16(n);
      Owner& o = g_owners[g_cur];
      o.dirty = true;
      const bool is_large = cap >= large_threshold;
      int seg = 0;
      if (not is_large and g_policy == Scatter and g_rng.chance(1, 4)) seg = int(g_rng.below(nsegments));
      Region& r = is_large ? o.large : o.small[seg];

      Hdr* h = nullptr;
      bool reused = false;
      switch (g_policy) {
      case Lifo:
         h = pop_free(r, cap, false);
         break;
      case Scatter:
         if (g_rng.chance(1, 2)) h = pop_free(r, cap, true);
         break;
      default:
         break;
      }
      if (h != nullptr)
         reused = true;
      else {
         bool top = false;
         size_t gap = 0;
         if (g_policy == Descending) top = true;
         else if (g_policy == Scatter) { top = g_rng.chance(1, 2); gap = is_large ? 0 : 16 * size_t(g_rng.below(8)); }
         h = carve(r, cap, top, gap);
         if (h == nullptr) {
            g_exhausted = true;
            if (nothrow) return nullptr;
            throw std::bad_alloc();
         }
      }
      h->magic = magic_live;
      h->serial = ++g_serial;
      h->req = uint32_t(n);
      h->cap = uint32_t(cap);
      h->op = g_op;
      h->owner = uint16_t(g_cur);
      h->large = is_large;
      h->seg = uint8_t(seg);
      h->next_free = nullptr;
      h->lprev = nullptr;
      h->lnext = o.live_head;
      if (o.live_head != nullptr) o.live_head->lprev = h;
      o.live_head = h;
      ++o.nlive;
      o.live_bytes += n;
      ++g_stats.allocs;
      g_stats.bytes += n;
      if (reused) ++g_stats.reused;
      if (is_large) ++g_stats.large;
      char* u = user_of(h);
      UNPOISON(u, n);                 // exactly the requested bytes: [n, cap) stays poisoned
      switch (g_fill[g_cur]) {
      case FillZero: std::memset(u, 0, n); break;
      case FillOnes: std::memset(u, 0xff, n); break;
      case FillDigit: std::memset(u, '5', n); break;
      default: {
         uint64_t v = h->serial * 0x9e3779b97f4a7c15ull + 0x632be59bd9b4e019ull;
         size_t i = 0;
         for (; i + 8 <= n; i += 8) { v ^= v << 13; v ^= v >> 7; v ^= v << 17; std::memcpy(u + i, &v, 8); }
         for (; i < n; ++i) { v ^= v << 13; v ^= v >> 7; v ^= v << 17; u[i] = char(v); }
         break;
      }
      }
      return u;
   }

   void release(void* p)
   {
      Hdr* h = hdr_of(p);
      if (h->magic != magic_live) {
         if (h->magic == magic_free) die("double free of an arena block");
         die("free of a pointer that is not the start of an arena block (or header overwritten)");
      }
      Owner& o = g_owners[h->owner];
      if (h->lprev != nullptr) h->lprev->lnext = h->lnext; else o.live_head = h->lnext;
      if (h->lnext != nullptr) h->lnext->lprev = h->lprev;
      --o.nlive;
      o.live_bytes -= h->req;
      h->magic = magic_free;
      h->lprev = h->lnext = nullptr;
      POISON(user_of(h), h->cap);
      Region& r = h->large ? o.large : o.small[h->seg];
      const int c = class_of(h->cap);
      h->next_free = r.free_heads[c];
      r.free_heads[c] = h;
      ++r.free_counts[c];
      ++g_stats.frees;
   }
}

   const char* policy_name(int p)
   {
      switch (p) {
      case Ascending: return "ascending";
      case Descending: return "descending";
      case Scatter: return "scatter";
      case Lifo: return "lifo";
      default: return "?";
      }
   }

   bool available() { return true; }

   void init()
   {
      if (g_mapped) return;
      void* p = mmap(reinterpret_cast<void*>(arena_base), arena_size, PROT_READ | PROT_WRITE,
                     MAP_PRIVATE | MAP_ANONYMOUS | MAP_NORESERVE | MAP_FIXED_NOREPLACE, -1, 0);
      if (p != reinterpret_cast<void*>(arena_base)) die("cannot map the arena at its fixed address");
      for (int i = 0; i < max_owners; ++i) {
         char* base = reinterpret_cast<char*>(arena_base) + size_t(i) * owner_size;
         Owner& o = g_owners[i];
         for (int k = 0; k < nsegments; ++k) {
            o.small[k].start = o.small[k].lo = base + segment_offset[k];
            o.small[k].end = o.small[k].hi = base + segment_offset[k] + (k == 0 ? small_size : far_size);
         }
         o.large.start = o.large.lo = base + small_size;
         o.large.end = o.large.hi = base + small_size + large_size;
      }
      g_mapped = true;
   }

   void reset(uint64_t seed, int policy)
   {
      init();
      for (auto& o : g_owners) {
         if (not o.dirty or &o == &g_owners[process_owner]) continue;
         for (auto& r : o.small) region_reset(r);
         region_reset(o.large);
         o.live_head = nullptr;
         o.nlive = 0;
         o.live_bytes = 0;
         o.dirty = false;
      }
      g_cur = 0;
      g_policy = policy % PolicyCount;
      g_rng.reseed(seed ^ 0x68656170ull);
      for (int k = 0; k < max_owners; ++k) { uint64_t z = (seed + uint64_t(k) * 0x9e3779b97f4a7c15ull) * 0xbf58476d1ce4e5b9ull; g_fill[k] = 1 + int((z >> 40) % FillCount); }
      g_serial = 0;
      g_op = 0;
      g_op_allocs = 0;
      g_armed = 0;
      g_fired = false;
      g_exhausted = false;
      g_stats = Stats{ };
   }

   void set_owner(int o) { g_cur = (o % max_owners + max_owners) % max_owners; }
   int owner() { return g_cur; }
   void set_policy(int p) { g_policy = ((p % PolicyCount) + PolicyCount) % PolicyCount; }
   void set_fill(int owner, int mode) { g_fill[(owner % max_owners + max_owners) % max_owners] = 1 + ((mode % FillCount) + FillCount - 1) % FillCount; }
   int fill(int owner) { return g_fill[(owner % max_owners + max_owners) % max_owners]; }
   int policy() { return g_policy; }
   void begin_op(uint32_t i) { g_op = i; g_op_allocs = 0; }
   void arm_fault(uint32_t k) { g_armed = k; if (k != 0) g_fired = false; }
   bool fault_fired() { return g_fired; }
   uint32_t op_allocs() { return g_op_allocs; }
   bool exhausted() { return g_exhausted; }

   bool in_arena(const void* p)
   {
      auto a = reinterpret_cast<uintptr_t>(p);
      return a >= arena_base and a < arena_base + arena_size;
   }

   int owner_of(const void* p)
   {
      if (not in_arena(p)) return -1;
      return int((reinterpret_cast<uintptr_t>(p) - arena_base) / owner_size);
   }

   bool is_live_block_interior(const void* p)
   {
      const int ow = owner_of(p);
      if (ow < 0) return false;
      auto a = static_cast<const char*>(p);
      for (Hdr* h = g_owners[ow].live_head; h != nullptr; h = h->lnext) {
         const char* u = user_of(h);
         if (a >= u and a < u + h->req) return true;
      }
      return false;
   }

   size_t live_count(int owner)
   {
      if (owner >= 0) return g_owners[owner].nlive;
      size_t n = 0;
      for (auto& o : g_owners) if (&o != &g_owners[process_owner]) n += o.nlive;
      return n;
   }

   uint64_t live_bytes(int owner)
   {
      if (owner >= 0) return g_owners[owner].live_bytes;
      uint64_t n = 0;
      for (auto& o : g_owners) if (&o != &g_owners[process_owner]) n += o.live_bytes;
      return n;
   }

   size_t live_blocks(LiveInfo* out, size_t max, int owner)
   {
      size_t k = 0;
      for (int i = 0; i < max_owners; ++i) {
         if (owner >= 0 ? owner != i : i == process_owner) continue;
         for (Hdr* h = g_owners[i].live_head; h != nullptr and k < max; h = h->lnext)
            out[k++] = LiveInfo{ user_of(h), h->req, h->op, i, h->serial };
      }
      return k;
   }

   const Stats& stats() { return g_stats; }
   uint64_t serial() { return g_serial; }

   void* noise_alloc(size_t n)
   {
      SutScope s;
      return ::operator new(n);
   }

   void noise_free(void* p) { ::operator delete(p); }
}

// ---------------------------------------------------------------------------------
// The replaceable allocation functions.
// ---------------------------------------------------------------------------------
namespace {
   inline void* harness_alloc(size_t n)
   {
      void* p = std::malloc(n != 0 ? n : 1);
      if (p == nullptr) throw std::bad_alloc();
      return p;
   }
   inline void* aligned_harness_alloc(size_t n, size_t al)
   {
      void* p = nullptr;
      if (al < sizeof(void*)) al = sizeof(void*);
      if (posix_memalign(&p, al, n != 0 ? n : 1) != 0) throw std::bad_alloc();
      return p;
   }
   inline void route_free(void* p) noexcept
   {
      if (p == nullptr) return;
      if (sim::heap::in_arena(p)) sim::heap::release(p);
      else std::free(p);
   }
}

void* operator new(size_t n)
{
   if (sim::g_sut_depth > 0) return sim::heap::allocate(n, false);
   return harness_alloc(n);
}
void* operator new[](size_t n)
{
   if (sim::g_sut_depth > 0) return sim::heap::allocate(n, false);
   return harness_alloc(n);
}
void* operator new(size_t n, const std::nothrow_t&) noexcept
{
   if (sim::g_sut_depth > 0) return sim::heap::allocate(n, true);
   return std::malloc(n != 0 ? n : 1);
}
void* operator new[](size_t n, const std::nothrow_t&) noexcept
{
   if (sim::g_sut_depth > 0) return sim::heap::allocate(n, true);
   return std::malloc(n != 0 ? n : 1);
}
// Over-aligned requests never come from ipr; they are served by the stock allocator.
void* operator new(size_t n, std::align_val_t al) { return aligned_harness_alloc(n, size_t(al)); }
void* operator new[](size_t n, std::align_val_t al) { return aligned_harness_alloc(n, size_t(al)); }
void* operator new(size_t n, std::align_val_t al, const std::nothrow_t&) noexcept
{
   try { return aligned_harness_alloc(n, size_t(al)); } catch (...) { return nullptr; }
}
void* operator new[](size_t n, std::align_val_t al, const std::nothrow_t&) noexcept
{
   try { return aligned_harness_alloc(n, size_t(al)); } catch (...) { return nullptr; }
}

void operator delete(void* p) noexcept { route_free(p); }
void operator delete[](void* p) noexcept { route_free(p); }
void operator delete(void* p, size_t) noexcept { route_free(p); }
void operator delete[](void* p, size_t) noexcept { route_free(p); }
void operator delete(void* p, const std::nothrow_t&) noexcept { route_free(p); }
void operator delete[](void* p, const std::nothrow_t&) noexcept { route_free(p); }
void operator delete(void* p, std::align_val_t) noexcept { std::free(p); }
void operator delete[](void* p, std::align_val_t) noexcept { std::free(p); }
void operator delete(void* p, size_t, std::align_val_t) noexcept { std::free(p); }
void operator delete[](void* p, size_t, std::align_val_t) noexcept { std::free(p); }
void operator delete(void* p, std::align_val_t, const std::nothrow_t&) noexcept { std::free(p); }
void operator delete[](void* p, std::align_val_t, const std::nothrow_t&) noexcept { std::free(p); }

#endif // SIM_NO_ARENA

// Interface between the simulator driver and the per-property scenarios.
#pragma once
#include "rng.hpp"
#include "plan.hpp"
#include <string>
#include <vector>
#include <cstdarg>
#include <cstdio>

namespace sim {

struct Verdict {
   enum Kind { Ok, Violation, Skip } kind = Ok;
   std::string cls;      // stable violation class ("signature"): oracle + node kind / call site
   std::string detail;   // expectation of the model and answer of the implementation, side by side
   static Verdict ok() { return { }; }
   static Verdict fail(std::string c, std::string d) { return { Violation, std::move(c), std::move(d) }; }
   static Verdict skip(std::string why) { return { Skip, "skip", std::move(why) }; }
   explicit operator bool() const { return kind != Violation; }
};

struct RunCtx {
   Digest log;
   bool verbose = false;
   std::vector<uint64_t> probes;
   uint64_t steps = 0;          // scheduler steps (the only notion of simulated time)
   bool relevant = false;       // at least one operation relevant to the property was executed
   int tier = 0;

   void event(const char* fmt, ...) __attribute__((format(printf, 2, 3)))
   {
      char buf[512];
      va_list ap;
      va_start(ap, fmt);
      int n = std::vsnprintf(buf, sizeof buf, fmt, ap);
      va_end(ap);
      if (n < 0) n = 0;
      if (n >= (int) sizeof buf) n = sizeof buf - 1;
      log.bytes(buf, size_t(n));
      log.byte('\n');
      if (verbose) { std::fputs("  | ", stdout); std::fputs(buf, stdout); std::fputc('\n', stdout); }
   }
   void probe(int i, uint64_t n = 1) { if (i >= 0 and size_t(i) < probes.size()) probes[size_t(i)] += n; }
};

struct Scenario {
   virtual ~Scenario() = default;
   virtual const char* id() const = 0;
   virtual const char* title() const = 0;
   virtual const char* rule() const = 0;                     // how cases are generated, what makes one distinct / non-trivial
   virtual std::vector<std::string> probe_names() const = 0; // "fault.*" names are reported as fault kinds
   virtual std::vector<std::string> assumptions() const { return { }; }
   // Seed-independent short runs built to hit every boundary named for the property.
   virtual size_t prologue_count(int /*tier*/) const { return 0; }
   virtual Plan prologue(size_t /*i*/, int /*tier*/) const { return { }; }
   // Seeded search.
   virtual size_t search_count(int tier) const = 0;
   virtual Plan generate(uint64_t run_seed, int tier) const = 0;
   virtual Verdict execute(const Plan&, RunCtx&) const = 0;
   // Human-readable rendering of an op (for samples and replay logs).
   virtual std::string describe(const Op& o) const
   {
      std::string s = "op" + std::to_string(o.code) + "(";
      for (int k = 0; k < 6; ++k) { if (k) s += ","; s += std::to_string((long long) o.a[k]); }
      s += ")";
      if (o.fault) s += "!alloc#" + std::to_string(o.fault);
      if (o.client) s += "@c" + std::to_string(o.client);
      return s;
   }
   // tsan flavour only: scenarios that need real threads
   virtual bool needs_tsan() const { return false; }
};

// A breadcrumb is a line written to the process's stderr before a step that may kill it (for
// instance unbounded recursion in the printer); when the process dies, the last breadcrumb
// becomes part of the violation class.
void breadcrumb(const char* text);
// Signatures of the known findings of the property being checked (so that generators can
// avoid exactly those triggers); loaded by the driver before any run.
const std::vector<std::string>& known_signatures();

// Warm-up: called once per process before its first run, with the process-lifetime sub-arena selected.  It exercises the
// library so that whatever the library initialises once per process (lazily initialised function-local statics) is
// allocated there and not inside a simulated run, whose sub-arenas are emptied when the run ends.
using WarmUp = void (*)();
void set_warm_up(WarmUp);

// Registry
void register_scenario(Scenario*);
Scenario* find_scenario(const std::string& id);
const std::vector<Scenario*>& all_scenarios();

struct Registrar {
   explicit Registrar(Scenario* s) { register_scenario(s); }
};

}

#pragma once
#include <cstdint>
#include <cstddef>
#include <string>
#include <vector>

namespace sim {
struct StaticSym {
   uintptr_t addr;
   size_t size;
   std::string name;      // mangled
   std::string section;
};
// Writable static objects (outside .data.rel.ro) whose symbol lives in namespace ipr.
std::vector<StaticSym> writable_ipr_statics(size_t* tls_count = nullptr);
}

#!/bin/sh
# Soundness self-test: property-preserving refactorings of the library must leave every check green.
# usage: tools/soundness.sh <patch> [props...]
set -u
patch="$1"; shift
props="${*:-C01 C02 C03 C04 C05 C07 C08 C09 C11 C12 C13 C14 C15 C16 C17 C18 C19 C20}"
cd /verif
if [ -n "$(git -C /repo status --porcelain --untracked-files=no)" ]; then echo "refusing: /repo not clean"; exit 2; fi
git -C /repo apply "$patch" || exit 2
rc=0
for p in $props; do
  out=$(./verif check $p --tier quick 2>&1); e=$?
  echo "$(basename $patch) $p exit=$e $(echo "$out" | grep -E 'VIOLATION|HARNESS|BUILD-FAILED|  class ' | head -3 | tr '\n' ' ')"
  [ $e -ne 0 ] && rc=1
done
git -C /repo checkout -- .
exit $rc

#!/bin/sh
# Rebuild /repo/_build (guard off) and run the repository's own test suite.
set -e
cmake -G Ninja -B /repo/_build -S /repo > /dev/null
cmake --build /repo/_build 2>&1 | tail -2
ctest --test-dir /repo/_build -j8 --timeout 900 2>&1 | tail -4
/repo/_build/tests/unit-tests/unittests 2>&1 | tail -3

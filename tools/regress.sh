#!/bin/sh
# Run every claimed check (quick tier by default) on the current /repo tree; one line per property.
# usage: tools/regress.sh [quick|thorough] [ids...]
cd "$(dirname "$0")/.."
tier=${1:-quick}; [ $# -gt 0 ] && shift
ids=${*:-C01 C02 C03 C04 C05 C07 C08 C09 C11 C12 C13 C14 C15 C16 C17 C18 C19 C20}
bad=0
for p in $ids; do
   out=$(./verif check $p --tier $tier 2>&1); rc=$?
   echo "$p exit=$rc $(echo "$out" | grep -E '^\[C[0-9]+T?\] runs=' | tail -1)"
   echo "$out" | grep -E '^(VIOLATION|KNOWN-FINDING|HARNESS|BUILD-FAILED)' | head -5
   [ $rc -ne 0 ] && bad=1
done
exit $bad

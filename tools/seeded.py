#!/usr/bin/env python3
"""Evaluate a seeded change (a patch that breaks a property while compiling and passing the
existing tests) against the checks in /verif.

  tools/seeded.py confirm <dir>            # in a scratch worktree: tests pass with the patch; demo passes without, fails with
  tools/seeded.py run <dir> [props...]     # apply to /repo, run the quick checks of the given properties (default: meta.json's), revert
  tools/seeded.py all [--thorough]         # run every /verif/seeded/*/ against its property; table of results

<dir> holds patch.diff, demo.cxx (optional), meta.json {"property": "C08", ...}.
Nothing is ever committed to /repo; the patch is undone with `git checkout -- .` straight afterwards.
"""
import json, os, subprocess, sys, shutil, time

HERE = os.path.dirname(os.path.dirname(os.path.abspath(__file__)))
REPO = "/repo"


def sh(cmd, **kw):
    return subprocess.run(cmd, shell=True, stdout=subprocess.PIPE, stderr=subprocess.STDOUT, text=True, **kw)


def repo_clean():
    r = sh("git -C %s status --porcelain --untracked-files=no" % REPO)
    return r.stdout.strip() == ""


def confirm(d):
    d = os.path.abspath(d)
    wt = "/tmp/seeded_eval_%d" % os.getpid()
    out = {}
    sh("git -C %s worktree remove --force %s" % (REPO, wt))
    r = sh("git -C %s worktree add -q %s HEAD" % (REPO, wt))
    try:
        demo = os.path.join(d, "demo.cxx")
        has_demo = os.path.exists(demo)
        libs = "%s/src/*.cxx" % wt
        if has_demo:
            extra = ""
            meta = {}
            if os.path.exists(os.path.join(d, "meta.json")):
                meta = json.load(open(os.path.join(d, "meta.json")))
            extra = meta.get("demo_flags", "")
            r = sh("g++ -std=c++20 %s -I%s/include %s %s -o %s/demo_before && %s/demo_before" % (extra, wt, demo, libs, wt, wt))
            out["demo_without_patch_exit"] = r.returncode
        r = sh("git -C %s apply %s/patch.diff" % (wt, d))
        if r.returncode != 0:
            out["apply"] = r.stdout[-400:]
            return out
        r = sh("cd %s && cmake -G Ninja -B _build -S . >/dev/null && cmake --build _build 2>&1 | tail -2 && ./_build/tests/unit-tests/unittests 2>&1 | tail -3" % wt)
        out["tests_with_patch"] = "17 passed" in r.stdout.replace("|  17 passed", "| 17 passed") or " 17 passed" in r.stdout
        out["tests_tail"] = r.stdout[-200:]
        if has_demo:
            r = sh("g++ -std=c++20 %s -I%s/include %s %s -o %s/demo_after && %s/demo_after" % (extra, wt, demo, libs, wt, wt))
            out["demo_with_patch_exit"] = r.returncode
            out["demo_with_patch_tail"] = r.stdout[-300:]
    finally:
        sh("git -C %s worktree remove --force %s" % (REPO, wt))
        shutil.rmtree(wt, ignore_errors=True)
    return out


def run(d, props=None, tier="quick"):
    d = os.path.abspath(d)
    meta = {}
    if os.path.exists(os.path.join(d, "meta.json")):
        meta = json.load(open(os.path.join(d, "meta.json")))
    if not props:
        props = [meta.get("property")] if meta.get("property") else []
    if not repo_clean():
        print("refusing: /repo has uncommitted changes to tracked files")
        return None
    results = {}
    r = sh("git -C %s apply %s/patch.diff" % (REPO, d))
    if r.returncode != 0:
        print("patch does not apply:", r.stdout[-300:])
        return None
    try:
        for p in props:
            t0 = time.time()
            r = sh("cd %s && ./verif check %s --tier %s" % (HERE, p, tier))
            lines = [l for l in r.stdout.splitlines() if l.startswith("VIOLATION") or l.startswith("KNOWN-FINDING") or l.startswith("HARNESS") or l.startswith("BUILD-FAILED") or "  class " in l]
            results[p] = {"exit": r.returncode, "wall_s": round(time.time() - t0, 1), "lines": lines[:8]}
    finally:
        sh("git -C %s checkout -- ." % REPO)
    return results


def main(argv):
    if len(argv) < 2:
        print(__doc__)
        return 2
    if argv[1] == "confirm":
        print(json.dumps(confirm(argv[2]), indent=1))
        return 0
    if argv[1] == "run":
        res = run(argv[2], argv[3:])
        print(json.dumps(res, indent=1))
        return 0 if res and all(v["exit"] == 1 for v in res.values()) else 1
    if argv[1] == "all":
        tier = "thorough" if "--thorough" in argv else "quick"
        base = os.path.join(HERE, "seeded")
        rows = []
        for name in sorted(os.listdir(base)):
            d = os.path.join(base, name)
            if not os.path.exists(os.path.join(d, "patch.diff")):
                continue
            res = run(d, None, tier) or {}
            for p, v in res.items():
                rows.append((name, p, v["exit"], v["wall_s"], v["lines"][-1] if v["lines"] else ""))
                print("%-28s %-4s exit=%d %6.1fs %s" % rows[-1])
        # leave the tree rebuilt for the unchanged repo
        return 0
    print(__doc__)
    return 2


if __name__ == "__main__":
    sys.exit(main(sys.argv))

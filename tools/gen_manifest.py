#!/usr/bin/env python3
"""Generates /verif/MANIFEST.json from the table below (kept in one place so that the
claimed set, the not-applicable list and the per-check notes cannot drift apart)."""
import json, os, sys

HERE = os.path.dirname(os.path.dirname(os.path.abspath(__file__)))

TECH = "deterministic simulation with fault injection"

# id -> (built?, technique detail, level text, level note, design section)
CHECKS = {
    "C01": (True,
            TECH + ": seeded histories of type-constructor requests over a simulated heap whose placement policy decides the address order of unification keys; normalised-key map as reference model; every key re-requested at the end; injected bad_alloc",
            "Seeded search over request histories, heap layouts and allocation-failure placements against a normalised-key map (same key <=> same node, within one constructor), with creation-time reading of each node. Evidence, not proof.",
            "Trusted: the reference model and observer in /verif/model (expectations are built from operation inputs only), AddressSanitizer/UBSan, the simulated allocator. Sampling, not enumeration: a clean batch means no counterexample among the runs explored.",
            "4/C01"),
    "C02": (True,
            TECH + ": every factory driven from seeded histories on the evolved graph; creation-time reading of each result against an expectation built from the inputs (operation-by-operation model check of every simulated run)",
            "Every callable factory is exercised (seed-independent prologue plus seeded search) and each result is read back through ipr:: interface classes only and compared with the expectation built from the operation's inputs. No schedule or fault matters for this property on the current code; that is said in DESIGN.md. Evidence, not proof.",
            "Trusted: the reference model and observer in /verif/model (expectations are built from operation inputs only), AddressSanitizer/UBSan, the simulated allocator. Sampling, not enumeration: a clean batch means no counterexample among the runs explored.",
            "4/C02"),
    "C03": (True,
            TECH + ": seeded interning histories on coexisting pools over a simulated heap (placement policies, injected bad_alloc), byte-map reference model, re-read of all earlier strings",
            "Seeded search over interning histories, heap layouts and allocation-failure placements against a byte-string map model; every run re-reads all earlier strings with arena red zones poisoned. Evidence, not proof: a clean batch means no counterexample among the runs explored.",
            "Trusted: the harness's word generator and map model (a few hundred lines), AddressSanitizer/UBSan, the simulated allocator. The pool-capacity constant is mirrored for targeting only.",
            "4/C03"),
    "C04": (True,
            TECH + ": seeded histories of name/atom constructors incl. every reserved spelling, address-ordered keys under simulated heap policies; key map, spelling->Identifier map and pairwise value-equality oracle",
            "Seeded search over request histories and heap layouts against a normalised-key map, a one-Identifier-per-spelling map fed with every Identifier reachable through the Lexicon, and a pairwise spelling oracle for ==. Evidence, not proof.",
            "Trusted: the reference model and observer in /verif/model (expectations are built from operation inputs only), AddressSanitizer/UBSan, the simulated allocator. Sampling, not enumeration: a clean batch means no counterexample among the runs explored.",
            "4/C04"),
    "C05": (True,
            TECH + ": full workload histories with re-observation of every earlier object after every step, freed arena blocks kept poisoned, four placement policies, injected bad_alloc",
            "Seeded search over histories of all factories, member additions and setters; after every step every previously returned object is re-read at its recorded address and compared with its model record; generative constructors must return fresh nodes. Evidence, not proof.",
            "Trusted: the reference model and observer in /verif/model (expectations are built from operation inputs only), AddressSanitizer/UBSan, the simulated allocator. Sampling, not enumeration: a clean batch means no counterexample among the runs explored.",
            "4/C05"),
    "C07": (True,
            TECH + ": seeded declaration histories with heavy redeclaration across many scopes; overload tables keyed by name/type addresses under simulated heap policies; scope model checked after every step; injected bad_alloc",
            "Seeded search over declaration histories and heap layouts against a vector+map scope model (entry order, product type, lookup, first-of-set, master, decl-set, homogeneous scopes). Evidence, not proof.",
            "Trusted: the reference model and observer in /verif/model (expectations are built from operation inputs only), AddressSanitizer/UBSan, the simulated allocator. Sampling, not enumeration: a clean batch means no counterexample among the runs explored.",
            "4/C07"),
    "C08": (True,
            TECH + ": seeded insertion histories on both tree flavours with address comparators decided by the simulated heap's placement policy, injected bad_alloc in insert, set model + red-black shape checker after every step",
            "Seeded search over insertion histories (plus a fixed prologue of all permutations of up to 7 keys and all duplicate-bearing sequences up to length 6 over 4 letters), key orders decided by the simulated heap, allocation failure injected into insert; the shape checker and a set model are evaluated after every insertion. Evidence, not proof.",
            "Trusted: the shape checker and set model in props/c08.cxx, the comparators used (total orders), sanitizers, the simulated allocator. Tree internals are read through classes derived from the protected core.",
            "4/C08"),
    "C09": (True,
            TECH + ": creation-time and every-step observation of type() against a typing table (kind-fixed, borrowed-as-agreement, given) on seeded histories with growing sequences, injected bad_alloc (with retry) and product tracking by observation on scopes whose insertion failed",
            "Seeded search over histories; each node's type() is compared with what its kind prescribes, borrowed types are checked as agreement with their source at every step, and product types of scopes / parameter lists / expression lists are re-checked after every addition. Evidence, not proof.",
            "Trusted: the reference model and observer in /verif/model (expectations are built from operation inputs only), AddressSanitizer/UBSan, the simulated allocator. Sampling, not enumeration: a clean batch means no counterexample among the runs explored.",
            "4/C09"),
    "C11": (True,
            TECH + ": seeded splittings of qualifier sets into successive requests (all 343 triples in the prologue), interleaved with other requests and noise, against the (union, innermost type) key",
            "Seeded search plus a fixed prologue of all triples of successive requests: every splitting must end at the node keyed by the union of qualifiers over the unqualified type; empty requests must be refused. Evidence, not proof.",
            "Trusted: the reference model and observer in /verif/model (expectations are built from operation inputs only), AddressSanitizer/UBSan, the simulated allocator. Sampling, not enumeration: a clean batch means no counterexample among the runs explored.",
            "4/C11"),
    "C12": (True,
            TECH + ": seeded nesting histories of regions and region-owning constructs in random creation order; parent/owner/depth model checked after every step; injected bad_alloc, after which the list that was being extended is still read for self-consistency",
            "Seeded search over nesting histories against a parent-link model: enclosing, walk to the unit's root in exactly the modelled number of steps, owners, handler regions, positions and levels in homogeneous scopes. Evidence, not proof.",
            "Trusted: the reference model and observer in /verif/model (expectations are built from operation inputs only), AddressSanitizer/UBSan, the simulated allocator. Sampling, not enumeration: a clean batch means no counterexample among the runs explored.",
            "4/C12"),
    "C13": (True,
            TECH + ": lifecycle client creating, using, destroying and re-creating Lexicons in place (lifo reuse) under the scheduler, with a constant battery and spelling->constant routes evaluated at random moments against the run's global history",
            "Seeded search over instance lifetimes and usage histories: every Lexicon at every time must return the same static nodes for the constants, correctly spelled and typed, and every public route from a spelling must end at the constant. The stateless part (pairwise distinct, spellings) rides along. Evidence, not proof.",
            "Trusted: the reference model and observer in /verif/model, the simulated allocator (accounting, poisoning), AddressSanitizer/UBSan (and ThreadSanitizer for C20's third layer). Sampling, not enumeration.",
            "4/C13"),
    "C14": (True,
            TECH + ": seeded histories leaving nodes partially built, followed by accessor sweeps with out-of-range probing of every sequence in rotating read orders, injected bad_alloc, under ASan+UBSan",
            "Seeded search over partially built states; every accessor of every reachable node and every sequence index from 0 to beyond size() must return a touchable result or throw std::logic_error; sanitizer reports fail the run. Evidence, not proof.",
            "Trusted: the reference model and observer in /verif/model (expectations are built from operation inputs only), AddressSanitizer/UBSan, the simulated allocator. Sampling, not enumeration: a clean batch means no counterexample among the runs explored.",
            "4/C14"),
    "C15": (True,
            TECH + ": every-step comparison of each derived operation with its definition on seeded histories whose containers grow from empty to many; pairwise equality oracle",
            "Seeded search; derived operations and their defining primitives are evaluated on the same node at every step; equalities are checked on all pairs of the run's pools. Evidence, not proof.",
            "Trusted: the reference model and observer in /verif/model (expectations are built from operation inputs only), AddressSanitizer/UBSan, the simulated allocator. Sampling, not enumeration: a clean batch means no counterexample among the runs explored.",
            "4/C15"),
    "C16": (True,
            TECH + ": seeded binding/rebinding histories on substitutions whose internal map is keyed by parameter addresses (decided by the simulated heap), queried with every parameter after every step",
            "Seeded search over binding histories and heap layouts against a map model, queried inside and outside each domain after every step. Evidence, not proof.",
            "Trusted: the reference model and observer in /verif/model (expectations are built from operation inputs only), AddressSanitizer/UBSan, the simulated allocator. Sampling, not enumeration: a clean batch means no counterexample among the runs explored.",
            "4/C16"),
    "C17": (True,
            TECH + ": one construction program executed in two Lexicons interleaved by the scheduler, in different sub-arenas under different placement policies, with noise allocations and unrelated constructions in one of them and a different fill pattern of fresh memory in each; outputs on simulated streams compared byte for byte",
            "Seeded search over programs of the printable fragment and over pairs of construction histories (addresses, policies, noise): texts must be byte-identical per option setting, a second print must reproduce the first, printing must leave the observable graph untouched, sentinel locations appear iff enabled. Evidence, not proof.",
            "Trusted: the reference model and observer in /verif/model, the acyclicity discipline of the graph generator (DESIGN.md), AddressSanitizer/UBSan, the simulated allocator and stream buffer. Sampling, not enumeration.",
            "4/C17"),
    "C18": (True,
            TECH + ": kind sweep (every node kind x every printer entry point, each in its own run, crash attributed through breadcrumbs) plus seeded graphs printed on simulated streams with odd initial state, failing after N bytes or throwing, and printed again through the same Printer once the stream is repaired",
            "Every kind the workload can build is offered to every entry point; seeded graphs with spellings over all byte values are printed on simulated streams; termination (process survival), stream state, decimal numbers, control bytes and printer indentation are checked; with a failing sink only termination and memory safety. Evidence, not proof.",
            "Trusted: the reference model and observer in /verif/model, the acyclicity discipline of the graph generator (DESIGN.md), AddressSanitizer/UBSan, the simulated allocator and stream buffer. Sampling, not enumeration.",
            "4/C18"),
    "C19": (True,
            TECH + ": full workload on up to four Lexicons destroyed and re-created in place; deterministic leak accounting by the simulated heap per destroyed Lexicon; fault enumeration sub-runs failing every allocation of sampled histories in turn",
            "Seeded search over construction/destruction histories with heap reuse; after each destruction the simulated heap's live set for that Lexicon must be empty; sanitizers watch every step; sampled histories get every allocation failed in turn (memory safety, earlier results intact, and the same leak oracle when the Lexicon is destroyed later). Evidence, not proof; the enumerated sub-space is exhaustive only relative to the sampled history.",
            "Trusted: the reference model and observer in /verif/model, the simulated allocator (accounting, poisoning), AddressSanitizer/UBSan (and ThreadSanitizer for C20's third layer). Sampling, not enumeration.",
            "4/C19"),
    "C20": (True,
            TECH + ": 2-8 clients with own Lexicons interleaved by the seeded scheduler, traces compared with solo runs, per-client sub-arenas for address ownership, static-storage monitor over libipr's writable statics; plus real threads under ThreadSanitizer (uncontrolled schedule, sanitizer layer)",
            "Seeded search over client programs and interleavings: per-client traces must equal solo traces, every address received must be the client's own or static, no static of libipr may be written on behalf of two Lexicons; a ThreadSanitizer layer runs the same programs on real threads (its schedule is the kernel's and is reported as such). Evidence, not proof.",
            "Trusted: the reference model and observer in /verif/model, the simulated allocator (accounting, poisoning), AddressSanitizer/UBSan (and ThreadSanitizer for C20's third layer). Sampling, not enumeration.",
            "4/C20"),
}

NOT_APPLICABLE = {
    "C06": "Category code / accept / default visitor hook / view<K> agreement is a fact about each node class, fixed at compile time; it has no state, history, schedule, address or fault in it, so a simulator has nothing to vary. Deciding it is a per-class enumeration, which is a different technique (DESIGN.md section 2).",
    "C10": "Specifier/qualifier algebra is a pure function over constexpr tables and integer bit operations; no state, history, schedule, address or fault can influence it. The natural decision procedure is exhaustive 2^18 enumeration, which is not simulation (DESIGN.md section 2).",
}

NOT_BUILT_REASON = "Simulation target per DESIGN.md section 4, but its check is not built to the stated standard yet, so it is not claimed (work in progress; see DESIGN.md section 11)."


def main():
    checks = []
    na = [{"property_id": k, "reason": v} for k, v in sorted(NOT_APPLICABLE.items())]
    for pid, (built, tech, text, note, ref) in sorted(CHECKS.items()):
        if not built:
            na.append({"property_id": pid, "reason": NOT_BUILT_REASON})
            continue
        checks.append({
            "property_id": pid,
            "quick_cmd": "./verif check %s --tier quick" % pid,
            "thorough_cmd": "./verif check %s --tier thorough" % pid,
            "evidence_file": "/verif/evidence/%s.json" % pid,
            "replay_cmd_template": "./verif replay {path}",
            "engine": "ipr-sim",
            "level_claimed": {"category": "exploration", "text": text, "design_ref": "DESIGN.md section " + ref},
            "level_note": note,
            "technique": tech,
        })
    na.sort(key=lambda e: e["property_id"])
    manifest = {
        "version": 1,
        "setup_cmd": "./verif build asan tsan",
        "hooks": {
            "guard": "IPR_VERIF",
            "enable": "no hook exists in /repo: every seam is reached without touching the library (link-time operator new/delete replacement, harness-owned streambuf, harness as only caller); checks nevertheless compile /repo with -DIPR_VERIF",
            "baseline_off_cmd": "cmake -G Ninja -B /repo/_build -S /repo && cmake --build /repo/_build && ctest --test-dir /repo/_build -j8 --timeout 900",
            "source_commits": [],
            "add_only": True,
        },
        "engines": [{
            "name": "ipr-sim",
            "path": "/verif/sim",
            "serves_properties": [c["property_id"] for c in checks],
            "kind_free_text": "deterministic simulator: seeded scheduler over cooperative clients, simulated heap (fixed-address arena, placement policies, injected bad_alloc), simulated stream buffer, reference model + observer, worker processes with crash attribution, ddmin minimisation, replay files, determinism gates",
        }],
        "checks": checks,
        "not_applicable": na,
        "notes": "All checks rebuild ipr-sim from /repo's working tree (content hash of src/ and include/ipr/) before running. Exit 0 = held on everything explored; 1 = VIOLATION line with replay file; 2 = build/harness problem. VERIF_SEED, VERIF_TIER, VERIF_BUDGET_S, VERIF_WORKERS are honoured.",
    }
    with open(os.path.join(HERE, "MANIFEST.json"), "w") as fh:
        json.dump(manifest, fh, indent=1)
        fh.write("\n")
    try:
        import jsonschema
        with open("/root/.vp/MANIFEST.schema.json") as fh:
            jsonschema.validate(manifest, json.load(fh))
        print("MANIFEST.json valid; claimed:", " ".join(c["property_id"] for c in checks))
    except ImportError:
        print("MANIFEST.json written (jsonschema not importable here)")


if __name__ == "__main__":
    main()

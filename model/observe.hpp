// The observer: reads real objects through ipr:: interface classes only.
#pragma once
#include "reading.hpp"
#include <ipr/interface>

namespace model {

// Pseudo-categories for sorts that are not ipr::Node.
enum Pseudo : int {
   PS_Token = -10, PS_BasicAttribute, PS_ScopedAttribute, PS_LabeledAttribute, PS_CalledAttribute, PS_ExpandedAttribute,
   PS_FactoredAttribute, PS_ElaboratedAttribute,
   PS_CapDefault = -30, PS_CapImplicit, PS_CapEnclosing, PS_CapBinding, PS_CapExpansion, PS_Capture,
   PS_Monadic = -50, PS_Polyadic, PS_ReqSimple, PS_ReqType, PS_ReqCompound, PS_ReqNested,
   PS_IndPointer, PS_IndReference, PS_IndMember, PS_SpUnqualified, PS_SpPack, PS_SpQualified, PS_SpParen,
   PS_MorFunction, PS_MorArray, PS_DeclTerm, PS_DeclTargeted, PS_ProvClassic, PS_ProvParen, PS_ProvBraced, PS_ProvDesignated,
   PS_DesField, PS_DesSlot, PS_Earmarked,
   PS_Unit = -90, PS_ModuleUnit, PS_InterfaceUnit, PS_Module, PS_Linkage, PS_Convention, PS_Transfer, PS_Logogram,
};

struct ObsOptions {
   bool probe_bounds = false;      // also index every sequence from size() to size()+2 and at SIZE_MAX (C14)
   unsigned order = 0;             // in which order a sequence is read: 0 iterate then index upwards; 1 last element first, then index downwards,
                                   // then iterate; 2 from the end (--end()), then index upwards (clients do not all read from the front)
};

struct ObsCounters {
   uint64_t accessor_calls = 0;
   uint64_t refused = 0;           // accessor calls answered by std::logic_error
   uint64_t out_of_range_probes = 0;
   uint64_t sequences_walked = 0;
   uint64_t seq_kinds[10] = { };   // per sequence implementation seen (filled by the world, which knows them)
};
ObsCounters& obs_counters();

inline Ref nref(const ipr::Node& n) { return static_cast<const ipr::Node*>(&n); }

Reading observe(const ipr::Node&, const ObsOptions& = { });
Reading observe(const ipr::Token&, const ObsOptions& = { });
Reading observe(const ipr::Attribute&, const ObsOptions& = { });
Reading observe(const ipr::Capture_specification&, const ObsOptions& = { });
Reading observe(const ipr::cxx_form::Constraint&, const ObsOptions& = { });
Reading observe(const ipr::cxx_form::Requirement&, const ObsOptions& = { });
Reading observe(const ipr::cxx_form::Indirector&, const ObsOptions& = { });
Reading observe(const ipr::cxx_form::Species_declarator&, const ObsOptions& = { });
Reading observe(const ipr::cxx_form::Morphism&, const ObsOptions& = { });
Reading observe(const ipr::cxx_form::Declarator&, const ObsOptions& = { });
Reading observe(const ipr::cxx_form::Initialization_provision&, const ObsOptions& = { });
Reading observe(const ipr::cxx_form::Subobject_designator&, const ObsOptions& = { });
Reading observe(const ipr::Translation_unit&, const ObsOptions& = { });
Reading observe(const ipr::Module&, const ObsOptions& = { });
Reading observe(const ipr::Transfer&, const ObsOptions& = { });
Reading observe(const ipr::Linkage&, const ObsOptions& = { });
Reading observe(const ipr::Calling_convention&, const ObsOptions& = { });

const char* category_name(int cat);
int64_t bytes_hash(const void* data, size_t n);   // the 'bytes' slot of a String reading

}

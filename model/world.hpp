// The workload engine: one Lexicon (plus units, modules, side factories) driven by integer
// operations, together with the reference model of what the Lexicon should remember.
#pragma once
#include "reading.hpp"
#include "observe.hpp"
#include "../sim/scenario.hpp"
#include "../sim/heap.hpp"
#include <ipr/impl>
#include <map>
#include <set>
#include <unordered_map>
#include <string>
#include <vector>
#include <functional>

namespace model {
namespace impl = ipr::impl;
namespace form = ipr::cxx_form;
using sim::Op;
using sim::RunCtx;
using sim::Verdict;

// ---------------------------------------------------------------------------------
// Opcode table.  X(name, family) — one row per callable factory / member-adding function /
// setter group.  The order is append-only (replay files store the numeric code).
// ---------------------------------------------------------------------------------
#define OPS_UNARY_OT(X) \
   X(make_address, Address) X(make_complement, Complement) X(make_deref, Deref) X(make_alignof, Alignof) X(make_sizeof, Sizeof) \
   X(make_args_cardinality, Args_cardinality) X(make_typeid, Typeid) X(make_not, Not) X(make_post_increment, Post_increment) \
   X(make_post_decrement, Post_decrement) X(make_pre_increment, Pre_increment) X(make_pre_decrement, Pre_decrement) \
   X(make_throw, Throw) X(make_unary_minus, Unary_minus) X(make_unary_plus, Unary_plus) X(make_expansion, Expansion) \
   X(make_noexcept, Noexcept)
#define OPS_UNARY_E(X) X(make_array_delete, Array_delete) X(make_delete, Delete)
#define OPS_UNARY_ET(X) X(make_demotion, Demotion) X(make_materialization, Materialization) X(make_promotion, Promotion) X(make_read, Read)
#define OPS_BINARY_OT(X) \
   X(make_and, And) X(make_array_ref, Array_ref) X(make_arrow, Arrow) X(make_arrow_star, Arrow_star) X(make_assign, Assign) \
   X(make_bitand, Bitand) X(make_bitand_assign, Bitand_assign) X(make_bitor, Bitor) X(make_bitor_assign, Bitor_assign) \
   X(make_bitxor, Bitxor) X(make_bitxor_assign, Bitxor_assign) X(make_comma, Comma) X(make_div, Div) X(make_div_assign, Div_assign) \
   X(make_dot, Dot) X(make_dot_star, Dot_star) X(make_equal, Equal) X(make_greater, Greater) X(make_greater_equal, Greater_equal) \
   X(make_less, Less) X(make_less_equal, Less_equal) X(make_lshift, Lshift) X(make_lshift_assign, Lshift_assign) \
   X(make_member_init, Member_init) X(make_minus, Minus) X(make_minus_assign, Minus_assign) X(make_modulo, Modulo) \
   X(make_modulo_assign, Modulo_assign) X(make_mul, Mul) X(make_mul_assign, Mul_assign) X(make_not_equal, Not_equal) X(make_or, Or) \
   X(make_plus, Plus) X(make_plus_assign, Plus_assign) X(make_scope_ref, Scope_ref) X(make_rshift, Rshift) X(make_rshift_assign, Rshift_assign)
#define OPS_CAST(X) \
   X(make_cast, Cast) X(make_const_cast, Const_cast) X(make_dynamic_cast, Dynamic_cast) X(make_reinterpret_cast, Reinterpret_cast) \
   X(make_static_cast, Static_cast)
#define OPS_ETT(X) X(make_coercion, Coercion) X(make_narrow, Narrow) X(make_pretend, Pretend) X(make_widen, Widen)

// everything else, one by one
#define OPS_OTHER(X) \
   /* strings, names, atoms */ \
   X(get_string) X(get_identifier_w) X(get_identifier_s) X(get_suffix) X(get_operator_w) X(get_operator_s) X(get_conversion) \
   X(get_ctor_name) X(get_dtor_name) X(get_guide_name) X(get_logogram) X(get_linkage_w) X(get_linkage_s) X(get_calling_convention) \
   X(get_symbol) X(get_label) X(get_this) X(get_template_id) X(make_template_id) X(get_literal_w) X(get_literal_s) X(make_literal_w) X(make_literal_s) \
   /* types */ \
   X(get_transfer_from_linkage) X(get_transfer_from_convention) X(get_transfer) X(get_as_type_id) X(get_as_type_expr) X(get_as_type_xfer) \
   X(get_array) X(get_qualified) X(get_decltype) X(get_tor) X(get_function2) X(get_function_xfer) X(get_function_eh) X(get_function_eh_xfer) \
   X(get_pointer) X(get_product_seq) X(get_product_wh) X(get_ptr_to_member) X(get_reference) X(get_rvalue_reference) X(get_sum_seq) X(get_sum_wh) \
   X(get_forall) X(get_auto) X(make_enum) X(make_class) X(make_union) X(make_namespace) X(make_closure) \
   /* expressions */ \
   X(make_phantom) X(make_phantom_t) X(make_eclipsis) X(make_restriction) X(make_expr_list) X(expr_list_push_back) X(make_id_expr_name) X(make_id_expr_decl) \
   X(make_label) X(make_enclosure) X(make_construction) X(make_rewrite) X(make_call) X(make_qualification) X(make_binary_fold) \
   X(make_where_region) X(make_where_expr) X(make_instantiation) X(make_new) X(make_conditional) X(make_mapping) X(lexicon_make_mapping) X(make_lambda) \
   X(make_requires) X(make_elementary_substitution) X(make_general_substitution) X(general_subst) X(make_asm) X(make_static_assert) \
   /* directives */ \
   X(make_specifiers_spread) X(make_structured_binding) X(make_using_declaration_single) X(make_using_declaration) X(make_using_directive) \
   X(make_phased_evaluation) X(make_pragma) \
   /* statements */ \
   X(make_break) X(make_continue) X(make_block) X(make_ctor_body) X(make_expr_stmt) X(make_goto) X(make_return) X(make_do) X(make_if2) X(make_if3) \
   X(make_switch) X(make_labeled_stmt) X(make_while) X(make_for) X(make_for_in) X(block_add_stmt) X(block_new_handler) X(handler_add_stmt) \
   /* scopes, regions, declarations */ \
   X(make_subregion) X(make_alias) X(make_var) X(make_field) X(make_bitfield) X(make_typedecl) X(make_fundecl) X(make_primary_template) \
   X(make_secondary_template) X(enum_add_member) X(class_declare_base) X(plist_add_member) X(mapping_param) X(closure_add_capture) \
   /* units and modules */ \
   X(new_unit) X(new_module) X(module_make_unit) \
   /* declarator forms (factories of impl::Region) */ \
   X(make_monadic_constraint) X(make_monadic_constraint_s) X(make_polyadic_constraint) X(make_polyadic_constraint_s) X(make_simple_requirement) \
   X(make_type_requirement) X(make_type_requirement_s) X(make_compound_requirement) X(make_nested_requirement) X(make_pointer_indirector) \
   X(make_reference_indirector) X(make_member_indirector) X(make_unqualified_id_species) X(make_unqualified_id_species_n) X(make_pack_species) \
   X(make_pack_species_n) X(make_qualified_id_species) X(make_parenthesized_species) X(make_function_morphism) X(make_array_morphism) \
   X(make_term_declarator) X(make_targeted_declarator) X(make_classic_provision) X(make_parenthesized_provision) X(make_braced_provision) \
   X(make_designated_provision) X(make_field_designator) X(make_slot_designator) \
   /* attributes, tokens, captures */ \
   X(new_token) X(make_basic_attribute) X(make_scoped_attribute) X(make_labeled_attribute) X(make_called_attribute) X(make_expanded_attribute) \
   X(make_factored_attribute) X(make_elaborated_attribute) X(default_capture) X(implicit_object_capture) X(enclosing_local_capture) \
   X(binding_capture) X(expansion_capture) \
   /* setters on impl:: nodes */ \
   X(set_decl_fields) X(set_stmt_fields) X(set_loop_fields) X(set_expr_fields) X(set_udt_fields) X(set_form_fields) X(set_directive_fields) \
   X(set_callable_fields) X(set_unit_fields) \
   /* noise */ \
   X(noise_alloc) X(noise_free) \
   /* appended later: a word beyond the pool boundaries, and macro operations that build complete, printable constructs */ \
   X(get_string_huge) X(macro_var) X(macro_function) X(macro_class) X(macro_template) X(macro_stmt_tree)

enum OpCode : int {
#define X(fn, K) OP_##fn,
   OPS_UNARY_OT(X) OPS_UNARY_E(X) OPS_UNARY_ET(X) OPS_BINARY_OT(X) OPS_CAST(X) OPS_ETT(X)
#undef X
#define X(fn) OP_##fn,
   OPS_OTHER(X)
#undef X
   OP_COUNT
};

const char* op_name(int code);
bool op_is_factory(int code);            // counts towards "factory coverage"

// ---------------------------------------------------------------------------------
// Model records
// ---------------------------------------------------------------------------------
using ObserveFn = Reading (*)(Ref, const ObsOptions&);

struct Rec {
   Reading exp;                 // expected reading (from inputs only)
   ObserveFn observe = nullptr;
   uint32_t born = 0;           // step at which the object was first returned
   uint64_t seq = 0;            // birth order among all modelled objects (strictly increasing, also within one step)
   int maker = -1;              // opcode that first produced it
   bool generative = false;     // produced by a make_ constructor that must yield a distinct node every time
   int owner_unit = -1;         // dies with this unit (index), -1: lives as long as the Lexicon
   const ipr::Expr* borrow = nullptr;   // the node's type() is documented to be this node's type(): checked as agreement
};

template<class T>
struct Pool {
   std::vector<T*> v;
   bool empty() const { return v.empty(); }
   size_t size() const { return v.size(); }
   // Selectors are interpreted modulo the number of live objects; odd selectors prefer the most recently created
   // ones, so that chains (a fresh type -> a declaration of that type -> a use of that declaration) are common.
   T* pick(int64_t sel) const
   {
      if (v.empty()) return nullptr;
      const uint64_t u = uint64_t(sel);
      if (u % 2 == 1) { const size_t w = v.size() < 6 ? v.size() : 6; return v[v.size() - 1 - size_t((u / 2) % w)]; }
      return v[size_t((u / 2) % v.size())];
   }
   void add(T* p) { if (p) v.push_back(p); }
   void add_unique(T* p) { if (p == nullptr) return; for (auto q : v) if (q == p) return; v.push_back(p); }
};

struct DeclEntry {
   const ipr::Decl* decl;
   const ipr::Name* name;
   const ipr::Type* type;
   int kind;                    // opcode of the declaring factory
};

struct ScopeModel {
   impl::Scope* scope = nullptr;
   const ipr::Region* region = nullptr;
   std::vector<DeclEntry> decls;        // entry order
};

enum HomoKind { H_params, H_enumerators, H_bases, H_eh };
struct HomoModel {
   HomoKind kind;
   const ipr::Scope* scope = nullptr;           // the homogeneous scope
   const ipr::Region* region = nullptr;         // its region
   const ipr::Node* owner_node = nullptr;       // parameter list / enum / class / handler
   std::vector<DeclEntry> decls;
   int64_t level = 0;
};

struct RegionModel {
   const ipr::Region* region = nullptr;
   const ipr::Region* parent = nullptr;         // nullptr: global
   Ref owner = nullptr;                         // expected owner() node, nullptr: none
   int depth = 0;
   int unit = -1;
};

// key of a unified constructor request after the documented normal forms
struct UKey {
   std::vector<Ref> refs;
   std::vector<int64_t> vals;
   std::vector<std::string> words;
   bool operator<(const UKey& o) const
   {
      if (refs != o.refs) return refs < o.refs;
      if (vals != o.vals) return vals < o.vals;
      return words < o.words;
   }
};

struct Unifier {
   std::map<UKey, Ref> by_key;
   std::map<Ref, UKey> by_addr;
};

struct WorldOptions {
   bool check_creation = true;       // C02: observe each result against its expectation right away
   bool track_unification = true;    // C01/C04: same key <=> same node
   bool probe_bounds = false;        // C14
   bool routes = false;              // C04/C13: spelling -> constant routes (label default, built-in by name, decltype(nullptr))
   bool track_identifiers = false;   // C04: one Identifier per spelling
   int owner = 0;                    // heap sub-arena
   bool retry_after_fault = true;    // after an injected bad_alloc the client usually asks for the same thing again
};

struct Builtins {
   std::vector<const ipr::Type*> types;            // the 26 accessors, in interface order
   std::vector<std::string> type_spellings;
   std::vector<const ipr::Symbol*> symbols;        // false true nullptr default delete
};

struct World {
   RunCtx& ctx;
   WorldOptions opt;
   impl::Lexicon* lex = nullptr;
   impl::attr_factory* attrs = nullptr;
   impl::capture_spec_factory* caps = nullptr;
   uint32_t step = 0;
   int current_op = 0;
   bool last_op_faulted = false;       // the last apply() was cut short by an injected bad_alloc
   uint64_t faults_configured = 0, faults_fired = 0;
   uint64_t observations = 0;          // counts observations; decides the order in which each one reads sequences
   const void* touching = nullptr;     // container the current op mutates (tainted if the op is cut short)
   std::map<const void*, int> taint_count;   // failed insertions per tainted container (each may or may not have taken effect)
   uint64_t retries = 0;                 // operations repeated right after an injected failure
   std::set<const void*> tainted;      // containers whose model conformance is no longer asserted (after an injected failure)
   Verdict verdict;                 // first violation recorded while applying operations
   std::string prop;                // property id used as prefix of violation classes

   // --- pools of live objects by sort ------------------------------------------------
   Pool<const ipr::Type> types;
   Pool<const ipr::Expr> exprs;
   Pool<const ipr::Name> names;
   Pool<const ipr::Identifier> idents;
   Pool<const ipr::String> strings;
   Pool<const ipr::Decl> decls;
   Pool<const ipr::Var> vars;
   Pool<const ipr::Template> templates;
   Pool<const ipr::Parameter> params;
   Pool<const ipr::Stmt> stmts;
   Pool<impl::Region> regions;
   Pool<const ipr::Region> any_regions;
   Pool<const ipr::Product> products;
   Pool<const ipr::Sum> sums;
   Pool<const ipr::Function> functions;
   Pool<const ipr::Forall> foralls;
   Pool<const ipr::Qualified> qualifieds;
   Pool<impl::Expr_list> xlists;
   Pool<const ipr::Enclosure> enclosures;
   Pool<const ipr::Construction> constructions;
   Pool<const ipr::Scope_ref> scope_refs;
   Pool<const ipr::Literal> literals;
   Pool<impl::Mapping> mappings;
   Pool<impl::Lambda> lambdas;
   Pool<impl::Requires> requireses;
   Pool<impl::Parameter_list> plists;
   Pool<impl::Class> classes;
   Pool<impl::Union> unions;
   Pool<impl::Enum> enums;
   Pool<impl::Namespace> namespaces;
   Pool<impl::Closure> closures;
   Pool<impl::Block> blocks;
   Pool<impl::Handler> handlers;
   Pool<const ipr::Linkage> linkages;
   Pool<const ipr::Calling_convention> conventions;
   Pool<const ipr::Transfer> transfers;
   Pool<const ipr::Logogram> logograms;
   Pool<impl::Token> tokens;
   Pool<const ipr::Attribute> attributes;
   Pool<const ipr::Capture_specification> capspecs;
   Pool<const ipr::Capture_specification::Named> named_capspecs;
   Pool<const ipr::Substitution> substs;
   Pool<impl::General_substitution> gen_substs;
   Pool<impl::Translation_unit> units;
   Pool<impl::Module> modules;
   Pool<impl::Module_unit> module_units;
   // impl-typed handles for setters
   Pool<impl::Var> ivars; Pool<impl::Field> ifields; Pool<impl::Bitfield> ibitfields; Pool<impl::Alias> ialiases;
   Pool<impl::Typedecl> itypedecls; Pool<impl::Fundecl> ifundecls; Pool<impl::Template> itemplates;
   Pool<impl::Parameter> iparams; Pool<impl::Enumerator> ienumerators; Pool<impl::Base_type> ibases;
   Pool<impl::Do> dos; Pool<impl::While> whiles; Pool<impl::Switch> switches; Pool<impl::For> fors; Pool<impl::For_in> for_ins;
   Pool<impl::Break> breaks; Pool<impl::Continue> continues; Pool<impl::If> ifs;
   Pool<impl::Id_expr> id_exprs; Pool<impl::New> news; Pool<impl::Instantiation> insts; Pool<impl::Where> wheres;
   Pool<impl::Specifiers_spread> spreads; Pool<impl::Structured_binding> sbindings; Pool<impl::Using_declaration> usings; Pool<impl::Pragma> pragmas;
   // classic expressions whose op_impl can be set (kept as type-erased setters)
   struct ClassicHandle { Ref node; std::function<void(const ipr::Expr*)> set; };
   std::vector<ClassicHandle> classics;
   struct TypedHandle { Ref node; std::function<void(const ipr::Type*)> set; };
   std::vector<TypedHandle> typed_exprs;
   struct StmtHandle { Ref node; std::function<void(int which, int64_t a, int64_t b, int64_t c)> set; };
   std::vector<StmtHandle> stmt_handles;
   // declarator forms
   Pool<const form::Constraint> constraints;
   Pool<form::impl::Polyadic_constraint> polyadics;
   Pool<const form::Requirement> requirements;
   Pool<form::impl::Compound_requirement> compound_reqs;
   Pool<const form::Indirector> indirectors;
   Pool<const form::Species_declarator> species;
   Pool<form::impl::Parenthesized_species> paren_species;
   Pool<const form::Morphism> morphisms;
   Pool<form::impl::Function_morphism> fun_morphisms;
   Pool<form::impl::Array_morphism> arr_morphisms;
   Pool<form::impl::Term_declarator> term_declarators;
   Pool<const form::Declarator> declarators;
   Pool<const form::Initialization_provision> provisions;
   Pool<const form::Elemental_initializer> elementals;
   Pool<form::impl::Braced_provision> braced;
   Pool<form::impl::Designated_list_provision> designated;
   Pool<const form::Subobject_designator> designators;

   // --- model ---------------------------------------------------------------------------
   std::unordered_map<Ref, Rec> recs;
   std::vector<Ref> order;                               // creation order of modelled objects
   std::map<int, Unifier> unifiers;                      // per constructor
   std::map<const impl::Scope*, ScopeModel> scopes;
   std::vector<HomoModel> homos;
   std::map<const ipr::Region*, RegionModel> region_models;
   std::map<std::string, Ref> identifier_by_spelling;    // C04: one Identifier per spelling
   std::map<std::string, Ref> string_by_bytes;
   std::map<Ref, std::string> spelling_of_string;        // String node -> bytes (as requested)
   std::map<const impl::General_substitution*, std::map<const ipr::Parameter*, const ipr::Expr*>> subst_models;
   std::map<const ipr::Substitution*, std::pair<const ipr::Parameter*, const ipr::Expr*>> elem_subst_models;
   std::map<Ref, std::pair<std::string, std::string>> spellings;   // linkage / convention / logogram / transfer -> spelling(s)
   std::map<Ref, Ref> print_parent;                                // child printed in place by an older container (handler -> block, parameter -> mapping)
   Ref bound_for(Ref child) { auto it = print_parent.find(child); return it == print_parent.end() ? child : it->second; }
   std::set<Ref> sealed_bodies;                                    // user-defined types whose body is printed in place somewhere: no further members
   std::set<Ref> body_printers;                                    // declarations whose initializer prints a body
   std::map<Ref, std::vector<Ref>> template_mapping;               // mapping -> templates initialised with it
   static bool is_udt_category(int cat);
   bool can_seal_as_body(const ipr::Type& udt, uint64_t user_seq);
   uint64_t next_seq = 0;
   bool region_sealed(const ipr::Region& r);                        // r is the body (or inside the body) of a sealed type
   Ref this_name = nullptr;                                        // the Identifier naming `this`, learnt from the first get_this
   std::vector<void*> noise_blocks;
   std::vector<impl::ref_sequence<ipr::Attribute>*> attr_seqs;      // sequences kept by reference by attributes: owned by the world
   std::vector<uint64_t> op_counts;                      // per opcode: times applied
   std::vector<int> step_codes;                          // opcode applied at each step (index = step), for leak attribution
   Builtins builtins;
   std::set<Ref> builtin_leaf;                                      // built-in types and constants: leaves of every graph
   std::vector<impl::Warehouse<ipr::Type>*> dead_warehouses;   // (none kept: warehouses die right after the call)
   uint64_t creation_checks = 0, unify_hits = 0, unify_fresh = 0;

   World(RunCtx& c, const WorldOptions& o, std::string property);
   ~World();
   World(const World&) = delete;

   // Apply one operation.  Returns the object the operation produced (nullptr if none).
   // Any violation is stored in `verdict` (first one wins); callers stop when it is set.
   Ref apply(const Op&);
   bool failed() const { return verdict.kind == Verdict::Violation; }
   void fail(const std::string& cls, const std::string& detail);

   // --- observation -----------------------------------------------------------------------
   // Compare one modelled object with its expectation; "" if it conforms.
   std::string check_object(Ref r, bool probe_bounds = false);
   // Re-observe every modelled object (or a rotating window) — C05.
   Verdict recheck_all(size_t window = 0);
   // C14: observe (with bounds probing) every node reachable from the modelled objects that the model does not know
   // (scope types, overload sets, type-ids of composite types, homogeneous scopes ...).  Any accessor that neither
   // returns nor throws logic_error is a violation.
   Verdict sweep_reachable(size_t cap = 4000);
   uint64_t swept_unmodelled = 0;
   Verdict check_derived();                                  // C15: derived operations the observer cannot phrase as a reading
   // Scope / overload / decl-set oracle (C07), region oracle (C12), typing table (C09), derived ops (C15) ...
   Verdict check_scope(const ScopeModel&);
   Verdict check_tainted_scope(const ScopeModel&);
   Verdict check_all_scopes();
   Verdict check_homogeneous(const HomoModel&);
   Verdict check_regions();
   Verdict check_substitutions();
   Verdict check_identifier_uniqueness();
   Verdict check_value_equalities();
   // address-independent digest of the whole observable graph (C17 / C20)
   uint64_t graph_digest();
   // An upper estimate of how many nodes printing `r` visits when the graph is unfolded as a tree (shared operands
   // count once per use), from the expected readings alone; saturates at 1e12.  Used by the printing scenarios to
   // leave out prints whose size is exponential in the number of operations (x*x built over itself fifty times).
   double print_weight(Ref r);
   std::unordered_map<Ref, double> weight_memo;
   std::set<std::pair<Ref, Ref>> weight_back_edges;                // edges left out to make the estimate's graph acyclic
   bool weight_edges_marked = false;
   bool explain_weights = false;                                   // print the estimate's tree (replay --verbose with VERIF_EXPLAIN_WEIGHT=<object index>)
   std::unordered_map<Ref, size_t> word_size;                      // Identifier -> length of its spelling (print-size estimates)

   // --- helpers used by the op implementations ----------------------------------------------
   const ipr::Type& T(int64_t sel);
   const ipr::Type* OptT(int64_t sel);
   const ipr::Expr& E(int64_t sel);
   const ipr::Expr& E2(int64_t sel, const ipr::Expr& other);      // distinct from `other` when possible
   const ipr::Name& N(int64_t sel);
   const ipr::Identifier& Id(int64_t sel);
   const ipr::String& S(int64_t sel);
   impl::Region& R(int64_t sel);
   const ipr::Region& AnyR(int64_t sel);
   std::u8string word(int64_t sel, int64_t style);
   ipr::Qualifiers quals(int64_t sel);

   template<class K> const K& reg(const K& node, Reading exp, bool generative, ObserveFn fn);
   Ref reg_ref(Ref r, Reading exp, bool generative, ObserveFn fn);
   Rec* rec(Ref r) { auto it = recs.find(r); return it == recs.end() ? nullptr : &it->second; }
   // Setters only ever link a node to an *older* one, so the graphs the harness builds stay acyclic.
   bool older(Ref x, Ref than)
   {
      auto b = recs.find(than);
      if (b == recs.end()) return false;
      auto a = recs.find(x);
      if (a == recs.end()) return builtin_leaf.count(x) != 0;     // unmodelled: only a built-in constant is known not to point back
      return a->second.seq < b->second.seq;
   }
   // an expression older than `than` (falls back to the constant `true`)
   const ipr::Expr& Eo(int64_t sel, Ref than)
   {
      for (int k = 0; k < 6; ++k) { const ipr::Expr& e = E(sel + k); if (older(nref(e), than)) return e; }
      return lex->true_value();
   }
   // a name older than `than` (falls back to an identifier, which refers to nothing but its spelling)
   const ipr::Name& No(int64_t sel, Ref than)
   {
      for (int k = 0; k < 6; ++k) { const ipr::Name& n = N(sel + k); if (older(nref(n), than)) return n; }
      return Id(sel);
   }
   // a type older than `than` (falls back to `int`)
   const ipr::Type& To(int64_t sel, Ref than)
   {
      for (int k = 0; k < 6; ++k) { const ipr::Type& t = T(sel + k); if (older(nref(t), than)) return t; }
      return lex->int_type();
   }
   const ipr::Stmt* So(int64_t sel, Ref than)
   {
      for (int k = 0; k < 6; ++k) { const ipr::Stmt* s = stmts.pick(sel + k); if (s != nullptr and older(nref(*s), than)) return s; }
      return nullptr;
   }
   void unify(int maker, UKey key, Ref result, const char* what, std::function<Ref()> again = { });
   struct Rerequest { Ref expected; const char* what; std::function<Ref()> again; };
   std::vector<Rerequest> rerequests;
   Verdict rerequest_all(size_t cap = 600);       // ask every recorded key once more: same node
   const ipr::Qualified* last_qualified = nullptr;
   void note_identifier(const ipr::Identifier&);
   const ipr::String& note_string(const ipr::String& s)
   {
      auto w = s.characters();
      spelling_of_string[nref(s)] = std::string(reinterpret_cast<const char*>(w.data()), w.size());
      return s;
   }
   void borrow_type(Ref node, const ipr::Expr& source);      // type() of `node` must agree with source.type() from now on
   std::string check_borrow(Ref node, const Rec&);
   Verdict check_products();                                 // C09: sequence types track their members
   void note_region(const ipr::Region& r, const ipr::Region* parent, Ref owner, int unit = -1);
   void note_scope(impl::Region& r);
   void reg_region(impl::Region& r, const ipr::Region* parent, Ref owner, int unit = -1);   // heterogeneous region: model + record + scope
   std::vector<const ipr::Decl*> decl_set_of(const ipr::Decl& d);                            // declarations sharing d's scope, name and type
   void for_each_in_set(const ipr::Decl& d, const std::function<void(Rec&)>& f);
   void add_type(const ipr::Type& t) { types.add_unique(&t); }
   void reg_product(const ipr::Product&, const std::vector<const ipr::Type*>& elements);   // a product requested directly by a macro operation
   void add_expr(const ipr::Expr& e) { exprs.add_unique(&e); }

   // op groups (defined in world_a/b/c.cxx)
   Ref nested(const Op&);            // an operation issued on behalf of another one (prerequisite built on demand)
   void trace_op(const char* what, const Op& op, Ref r);
   Ref dispatch(const Op&);
   Ref apply_names_types(const Op&);
   Ref apply_exprs(const Op&);
   Ref apply_stmts_decls(const Op&);
   Ref apply_forms_misc(const Op&);
   Ref apply_macros(const Op&);
   Ref add_parameter(impl::Parameter_list* pl, impl::Mapping* mp, const ipr::Name& nm, const ipr::Type& t);
};

inline Reading observe_node_fn(Ref r, const ObsOptions& o) { return observe(*static_cast<const ipr::Node*>(r), o); }

// Node registration helper: records the expectation and checks it at creation.
template<class K>
inline const K& World::reg(const K& node, Reading exp, bool generative, ObserveFn fn)
{
   reg_ref(nref(node), std::move(exp), generative, fn ? fn : &observe_node_fn);
   return node;
}
// Library calls are made under the SUT scope (allocations go to the simulated heap and can be failed);
// the harness's own bookkeeping is not.
#define SUT(...) ([&]() -> decltype(auto) { ::sim::SutScope sut_scope_; return (__VA_ARGS__); }())
#define SUT_DO(...) do { ::sim::SutScope sut_scope_; __VA_ARGS__; } while (0)
#define REG(node, exp, generative) reg((node), (exp), (generative), nullptr)

// expected readings for the generic families
Reading expect_unary(ipr::Category_code, const ipr::Node& operand, const ipr::Type* type, bool classic);
Reading expect_binary(ipr::Category_code, const ipr::Node& a, const ipr::Node& b, const ipr::Type* type, bool classic);
// slots every composite type must show (type == typename, natural transfer)
void expect_composite(Reading&, World&);

// A Warehouse the harness places in the arena for the duration of one call (its storage is poisoned right afterwards, so
// the library must have copied what it keeps).  It is released on every path, also when an injected failure interrupts
// the operation between its creation and the call.
struct ArenaWarehouse {
   impl::Warehouse<ipr::Type>* p;
   ArenaWarehouse() { sim::SutScope s; p = new impl::Warehouse<ipr::Type>(); }
   ~ArenaWarehouse() { release(); }
   void release() { if (p != nullptr) { sim::SutScope s; delete p; p = nullptr; } }
   impl::Warehouse<ipr::Type>& operator*() const { return *p; }
   impl::Warehouse<ipr::Type>* operator->() const { return p; }
   ArenaWarehouse(const ArenaWarehouse&) = delete;
};
void expect_stmt_defaults(Reading&);

std::string describe_op(const Op&);

}

// Units, modules, declarator forms, attributes, tokens, capture specifications, the public
// setters of impl:: nodes (partially built states), and noise.
#include "world.hpp"
#include <ipr/traversal>
#include <stdexcept>
#include <algorithm>

namespace model {
using sim::SutScope;
using ipr::Category_code;
using ipr::Optional;

namespace {
   Reading obs_token(Ref r, const ObsOptions& o) { return observe(*static_cast<const ipr::Token*>(r), o); }
   Reading obs_attr(Ref r, const ObsOptions& o) { return observe(*static_cast<const ipr::Attribute*>(r), o); }
   Reading obs_cap(Ref r, const ObsOptions& o) { return observe(*static_cast<const ipr::Capture_specification*>(r), o); }
   Reading obs_constraint(Ref r, const ObsOptions& o) { return observe(*static_cast<const form::Constraint*>(r), o); }
   Reading obs_requirement(Ref r, const ObsOptions& o) { return observe(*static_cast<const form::Requirement*>(r), o); }
   Reading obs_indirector(Ref r, const ObsOptions& o) { return observe(*static_cast<const form::Indirector*>(r), o); }
   Reading obs_species(Ref r, const ObsOptions& o) { return observe(*static_cast<const form::Species_declarator*>(r), o); }
   Reading obs_morphism(Ref r, const ObsOptions& o) { return observe(*static_cast<const form::Morphism*>(r), o); }
   Reading obs_declarator(Ref r, const ObsOptions& o) { return observe(*static_cast<const form::Declarator*>(r), o); }
   Reading obs_provision(Ref r, const ObsOptions& o) { return observe(*static_cast<const form::Initialization_provision*>(r), o); }
   Reading obs_designator(Ref r, const ObsOptions& o) { return observe(*static_cast<const form::Subobject_designator*>(r), o); }
   Reading obs_unit(Ref r, const ObsOptions& o) { return observe(*static_cast<const ipr::Translation_unit*>(r), o); }
   Reading obs_module(Ref r, const ObsOptions& o) { return observe(*static_cast<const ipr::Module*>(r), o); }
}

Ref World::apply_forms_misc(const Op& op)
{
   const int code = ((op.code % OP_COUNT) + OP_COUNT) % OP_COUNT;
   const ipr::Lexicon& L = *lex;
   switch (code) {
   // ------------------------------------------------------------------ units and modules
   case OP_new_unit: {
      if (units.size() >= 4) return nullptr;
      auto* u = SUT(new impl::Translation_unit(*lex));
      const int idx = int(units.size());
      units.add(u);
      const ipr::Translation_unit& ui = *u;
      const ipr::Namespace& gns = ui.global_namespace();
      const ipr::Identifier& empty_id = SUT(lex->get_identifier(u8""));
      Reading e(PS_Unit);
      e.r("global_namespace", nref(gns)).q("imported_modules", { });
      reg_ref(&ui, e, true, &obs_unit);
      Reading ne{ int(Category_code::Namespace) };
      ne.r("type", nref(L.namespace_type())).r("name", nref(empty_id)).r("region", nref(*u->global_region()));
      REG(gns, ne, true);
      reg_region(*u->global_region(), nullptr, nref(gns), idx);
      note_identifier(empty_id);
      add_type(gns);
      return &ui;
   }
   case OP_new_module: {
      if (modules.size() >= 2) return nullptr;
      auto* m = SUT(new impl::Module(*lex));
      modules.add(m);
      const ipr::Module& mi = *m;
      const ipr::Interface_unit& iu = mi.interface_unit();
      Reading e(PS_Module);
      e.q("name.stems", { }).r("interface_unit", static_cast<const ipr::Translation_unit*>(&iu)).q("implementation_units", { });
      reg_ref(&mi, e, true, &obs_module);
      Reading ue(PS_InterfaceUnit);
      ue.r("parent_module", &mi).q("imported_modules", { }).q("purview", { }).q("exported_modules", { }).q("exported_declarations", { });
      ue.r("global_namespace", nref(iu.global_namespace()));
      reg_ref(static_cast<const ipr::Translation_unit*>(&iu), ue, true, &obs_unit);
      reg_region(*m->iface.global_region(), nullptr, nref(iu.global_namespace()), -1);
      return &mi;
   }
   case OP_module_make_unit: {
      if (modules.empty()) { Op o; o.code = OP_new_module; nested(o); }
      if (module_units.size() >= 4) return nullptr;
      impl::Module* m = modules.pick(op.a[0]);
      touching = m;
      impl::Module_unit* u = SUT(m->make_unit());
      module_units.add(u);
      const ipr::Module_unit& ui = *u;
      Reading ue(PS_ModuleUnit);
      ue.r("parent_module", static_cast<const ipr::Module*>(m)).q("imported_modules", { }).q("purview", { }).r("global_namespace", nref(ui.global_namespace()));
      reg_ref(static_cast<const ipr::Translation_unit*>(&ui), ue, true, &obs_unit);
      if (Rec* rc = rec(static_cast<const ipr::Module*>(m))) rc->exp.append("implementation_units", &ui);
      reg_region(*u->global_region(), nullptr, nref(ui.global_namespace()), -1);
      return static_cast<const ipr::Translation_unit*>(&ui);
   }
   // ------------------------------------------------------------------ declarator forms
   case OP_make_monadic_constraint: case OP_make_monadic_constraint_s: {
      impl::Region& rg = R(op.a[0]);
      const ipr::Identifier& id = Id(op.a[1]);
      const ipr::Expr* sc = code == OP_make_monadic_constraint_s ? &E(op.a[2]) : nullptr;
      auto* c = sc ? SUT(rg.make_monadic_constraint(*sc, id)) : SUT(rg.make_monadic_constraint(id));
      Reading e(PS_Monadic);
      e.r("scope", sc ? nref(*sc) : nullptr).r("concept_name", nref(id));
      reg_ref(static_cast<const form::Constraint*>(c), e, true, &obs_constraint);
      constraints.add(static_cast<const form::Constraint*>(c));
      return static_cast<const form::Constraint*>(c);
   }
   case OP_make_polyadic_constraint: case OP_make_polyadic_constraint_s: {
      impl::Region& rg = R(op.a[0]);
      const ipr::Identifier& id = Id(op.a[1]);
      const ipr::Expr* sc = code == OP_make_polyadic_constraint_s ? &E(op.a[2]) : nullptr;
      auto* c = sc ? SUT(rg.make_polyadic_constraint(*sc, id)) : SUT(rg.make_polyadic_constraint(id));
      Reading e(PS_Polyadic);
      e.r("scope", sc ? nref(*sc) : nullptr).r("concept_name", nref(id)).q("trailing_arguments", { });
      reg_ref(static_cast<const form::Constraint*>(c), e, true, &obs_constraint);
      constraints.add(static_cast<const form::Constraint*>(c));
      polyadics.add(c);
      return static_cast<const form::Constraint*>(c);
   }
   case OP_make_simple_requirement: {
      impl::Region& rg = R(op.a[0]);
      const ipr::Expr& x = E(op.a[1]);
      auto* q = SUT(rg.make_simple_requirement(x));
      Reading e(PS_ReqSimple);
      e.r("expr", nref(x));
      reg_ref(static_cast<const form::Requirement*>(q), e, true, &obs_requirement);
      requirements.add(static_cast<const form::Requirement*>(q));
      return static_cast<const form::Requirement*>(q);
   }
   case OP_make_type_requirement: case OP_make_type_requirement_s: {
      impl::Region& rg = R(op.a[0]);
      const ipr::Name& n = N(op.a[1]);
      const ipr::Expr* sc = code == OP_make_type_requirement_s ? &E(op.a[2]) : nullptr;
      auto* q = sc ? SUT(rg.make_type_requirement(*sc, n)) : SUT(rg.make_type_requirement(n));
      Reading e(PS_ReqType);
      e.r("scope", sc ? nref(*sc) : nullptr).r("type_name", nref(n));
      reg_ref(static_cast<const form::Requirement*>(q), e, true, &obs_requirement);
      requirements.add(static_cast<const form::Requirement*>(q));
      return static_cast<const form::Requirement*>(q);
   }
   case OP_make_compound_requirement: {
      impl::Region& rg = R(op.a[0]);
      const ipr::Expr& x = E(op.a[1]);
      auto* q = SUT(rg.make_compound_requirement(x));
      Reading e(PS_ReqCompound);
      e.r("expr", nref(x)).r("constraint", nullptr).s("nothrow", 0);
      reg_ref(static_cast<const form::Requirement*>(q), e, true, &obs_requirement);
      requirements.add(static_cast<const form::Requirement*>(q));
      compound_reqs.add(q);
      return static_cast<const form::Requirement*>(q);
   }
   case OP_make_nested_requirement: {
      impl::Region& rg = R(op.a[0]);
      const ipr::Expr& x = E(op.a[1]);
      auto* q = SUT(rg.make_nested_requirement(x));
      Reading e(PS_ReqNested);
      e.r("condition", nref(x));
      reg_ref(static_cast<const form::Requirement*>(q), e, true, &obs_requirement);
      requirements.add(static_cast<const form::Requirement*>(q));
      return static_cast<const form::Requirement*>(q);
   }
   case OP_make_pointer_indirector: {
      impl::Region& rg = R(op.a[0]);
      const auto q = quals(op.a[1]);
      auto* i = SUT(rg.make_pointer_indirector(q));
      Reading e(PS_IndPointer);
      e.s("qualifiers", int64_t(q)).q("attributes", { });
      reg_ref(static_cast<const form::Indirector*>(i), e, true, &obs_indirector);
      indirectors.add(static_cast<const form::Indirector*>(i));
      return static_cast<const form::Indirector*>(i);
   }
   case OP_make_reference_indirector: {
      impl::Region& rg = R(op.a[0]);
      const auto f = form::Reference_flavor(uint64_t(op.a[1]) % 2);
      auto* i = SUT(rg.make_reference_indirector(f));
      Reading e(PS_IndReference);
      e.s("flavor", int64_t(f)).q("attributes", { });
      reg_ref(static_cast<const form::Indirector*>(i), e, true, &obs_indirector);
      indirectors.add(static_cast<const form::Indirector*>(i));
      return static_cast<const form::Indirector*>(i);
   }
   case OP_make_member_indirector: {
      impl::Region& rg = R(op.a[0]);
      const ipr::Expr& x = E(op.a[1]);
      const auto q = quals(op.a[2]);
      auto* i = SUT(rg.make_member_indirector(x, q));
      Reading e(PS_IndMember);
      e.r("scope", nref(x)).s("qualifiers", int64_t(q)).q("attributes", { });
      reg_ref(static_cast<const form::Indirector*>(i), e, true, &obs_indirector);
      indirectors.add(static_cast<const form::Indirector*>(i));
      return static_cast<const form::Indirector*>(i);
   }
   case OP_make_unqualified_id_species: case OP_make_unqualified_id_species_n: {
      impl::Region& rg = R(op.a[0]);
      const ipr::Name* n = code == OP_make_unqualified_id_species_n ? &N(op.a[1]) : nullptr;
      auto* s = n ? SUT(rg.make_unqualified_id_species(*n)) : SUT(rg.make_unqualified_id_species());
      Reading e(PS_SpUnqualified);
      e.r("name", n ? nref(*n) : nullptr).q("attributes", { }).q("suffix", { });
      reg_ref(static_cast<const form::Species_declarator*>(s), e, true, &obs_species);
      species.add(static_cast<const form::Species_declarator*>(s));
      return static_cast<const form::Species_declarator*>(s);
   }
   case OP_make_pack_species: case OP_make_pack_species_n: {
      impl::Region& rg = R(op.a[0]);
      const ipr::Identifier* n = code == OP_make_pack_species_n ? &Id(op.a[1]) : nullptr;
      auto* s = n ? SUT(rg.make_pack_species(*n)) : SUT(rg.make_pack_species());
      Reading e(PS_SpPack);
      e.r("name", n ? nref(*n) : nullptr).q("attributes", { }).q("suffix", { });
      reg_ref(static_cast<const form::Species_declarator*>(s), e, true, &obs_species);
      species.add(static_cast<const form::Species_declarator*>(s));
      return static_cast<const form::Species_declarator*>(s);
   }
   case OP_make_qualified_id_species: {
      impl::Region& rg = R(op.a[0]);
      const ipr::Expr& x = E(op.a[1]);
      const ipr::Name& n = N(op.a[2]);
      auto* s = SUT(rg.make_qualified_id_species(x, n));
      Reading e(PS_SpQualified);
      e.r("scope", nref(x)).r("member", nref(n)).q("attributes", { }).q("suffix", { });
      reg_ref(static_cast<const form::Species_declarator*>(s), e, true, &obs_species);
      species.add(static_cast<const form::Species_declarator*>(s));
      return static_cast<const form::Species_declarator*>(s);
   }
   case OP_make_parenthesized_species: {
      impl::Region& rg = R(op.a[0]);
      auto* s = SUT(rg.make_parenthesized_species());
      Reading e(PS_SpParen);
      e.r("term", ABSENT).q("suffix", { });
      reg_ref(static_cast<const form::Species_declarator*>(s), e, true, &obs_species);
      species.add(static_cast<const form::Species_declarator*>(s));
      paren_species.add(s);
      return static_cast<const form::Species_declarator*>(s);
   }
   case OP_make_function_morphism: {
      impl::Region& rg = R(op.a[0]);
      const ipr::Region& pr = AnyR(op.a[1]);
      const auto level = ipr::Mapping_level(uint64_t(op.a[2]) % 5);
      auto* m = SUT(rg.make_function_morphism(pr, level));
      Reading e(PS_MorFunction);
      e.r("parameters", nref(m->inputs)).s("qualifiers", 0).s("binding_mode", 0).r("throws", nullptr).q("attributes", { });
      reg_ref(static_cast<const form::Morphism*>(m), e, true, &obs_morphism);
      Reading pe{ int(Category_code::Parameter_list) };
      pe.r("region", nref(m->inputs.parms)).s("level", int64_t(level)).q("elements", { });
      REG(static_cast<const ipr::Parameter_list&>(m->inputs), pe, true);
      note_region(m->inputs.parms, &pr, nullptr);
      HomoModel h; h.kind = H_params; h.scope = &m->inputs.parms.scope; h.region = &m->inputs.parms; h.owner_node = &m->inputs; h.level = int64_t(level);
      homos.push_back(h);
      plists.add(&m->inputs);
      morphisms.add(static_cast<const form::Morphism*>(m));
      fun_morphisms.add(m);
      return static_cast<const form::Morphism*>(m);
   }
   case OP_make_array_morphism: {
      impl::Region& rg = R(op.a[0]);
      auto* m = SUT(rg.make_array_morphism());
      Reading e(PS_MorArray);
      e.r("bound", nullptr).q("attributes", { });
      reg_ref(static_cast<const form::Morphism*>(m), e, true, &obs_morphism);
      morphisms.add(static_cast<const form::Morphism*>(m));
      arr_morphisms.add(m);
      return static_cast<const form::Morphism*>(m);
   }
   case OP_make_term_declarator: {
      impl::Region& rg = R(op.a[0]);
      auto* d = SUT(rg.make_term_declarator());
      Reading e(PS_DeclTerm);
      e.r("species", ABSENT).q("indirectors", { });
      reg_ref(static_cast<const form::Declarator*>(d), e, true, &obs_declarator);
      declarators.add(static_cast<const form::Declarator*>(d));
      term_declarators.add(d);
      return static_cast<const form::Declarator*>(d);
   }
   case OP_make_targeted_declarator: {
      impl::Region& rg = R(op.a[0]);
      if (species.empty()) { Op o; o.code = OP_make_unqualified_id_species; o.a[0] = op.a[0]; nested(o); }
      const form::Species_declarator& s = *species.pick(op.a[1]);
      const ipr::Type& t = T(op.a[2]);
      auto* d = SUT(rg.make_targeted_declarator(s, t));
      Reading e(PS_DeclTargeted);
      e.r("species", &s).r("target", nref(t));
      reg_ref(static_cast<const form::Declarator*>(d), e, true, &obs_declarator);
      declarators.add(static_cast<const form::Declarator*>(d));
      return static_cast<const form::Declarator*>(d);
   }
   case OP_make_braced_provision: {
      impl::Region& rg = R(op.a[0]);
      auto* p = SUT(rg.make_braced_provision());
      Reading e(PS_ProvBraced);
      e.q("elements", { });
      reg_ref(static_cast<const form::Initialization_provision*>(p), e, true, &obs_provision);
      provisions.add(static_cast<const form::Initialization_provision*>(p));
      elementals.add(static_cast<const form::Elemental_initializer*>(p));
      braced.add(p);
      return static_cast<const form::Initialization_provision*>(p);
   }
   case OP_make_designated_provision: {
      impl::Region& rg = R(op.a[0]);
      auto* p = SUT(rg.make_designated_provision());
      Reading e(PS_ProvDesignated);
      e.q("elements", { });
      reg_ref(static_cast<const form::Initialization_provision*>(p), e, true, &obs_provision);
      provisions.add(static_cast<const form::Initialization_provision*>(p));
      elementals.add(static_cast<const form::Elemental_initializer*>(p));
      designated.add(p);
      return static_cast<const form::Initialization_provision*>(p);
   }
   case OP_make_classic_provision: {
      impl::Region& rg = R(op.a[0]);
      if (elementals.empty()) { Op o; o.code = OP_make_braced_provision; o.a[0] = op.a[0]; nested(o); }
      const form::Elemental_initializer& x = *elementals.pick(op.a[1]);
      auto* p = SUT(rg.make_classic_provision(x));
      Reading e(PS_ProvClassic);
      e.r("initializer", &x);
      reg_ref(static_cast<const form::Initialization_provision*>(p), e, true, &obs_provision);
      provisions.add(static_cast<const form::Initialization_provision*>(p));
      return static_cast<const form::Initialization_provision*>(p);
   }
   case OP_make_parenthesized_provision: {
      impl::Region& rg = R(op.a[0]);
      const ipr::Expr& x = E(op.a[1]);
      auto* p = SUT(rg.make_parenthesized_provision(x));
      Reading e(PS_ProvParen);
      e.r("initializer", nref(x));
      reg_ref(static_cast<const form::Initialization_provision*>(p), e, true, &obs_provision);
      provisions.add(static_cast<const form::Initialization_provision*>(p));
      return static_cast<const form::Initialization_provision*>(p);
   }
   case OP_make_field_designator: {
      impl::Region& rg = R(op.a[0]);
      const ipr::Identifier& id = Id(op.a[1]);
      auto* d = SUT(rg.make_field_designator(id));
      Reading e(PS_DesField);
      e.r("name", nref(id));
      reg_ref(static_cast<const form::Subobject_designator*>(d), e, true, &obs_designator);
      designators.add(static_cast<const form::Subobject_designator*>(d));
      return static_cast<const form::Subobject_designator*>(d);
   }
   case OP_make_slot_designator: {
      impl::Region& rg = R(op.a[0]);
      const ipr::Expr& x = E(op.a[1]);
      auto* d = SUT(rg.make_slot_designator(x));
      Reading e(PS_DesSlot);
      e.r("index", nref(x));
      reg_ref(static_cast<const form::Subobject_designator*>(d), e, true, &obs_designator);
      designators.add(static_cast<const form::Subobject_designator*>(d));
      return static_cast<const form::Subobject_designator*>(d);
   }
   // ------------------------------------------------------------------ tokens and attributes
   case OP_new_token: {
      if (tokens.size() >= 64) return static_cast<const ipr::Token*>(tokens.pick(op.a[0]));
      const ipr::String& s = S(op.a[0]);
      ipr::Source_location loc;
      loc.line = ipr::Line_number(uint32_t(op.a[1]) + 1);
      loc.column = ipr::Column_number(uint32_t(op.a[2]) + 2);
      loc.file = ipr::File_index(uint32_t(op.a[3]) + 3);
      const auto tv = ipr::TokenValue(uint16_t(op.a[4]));
      const auto tc = ipr::TokenCategory(uint8_t(op.a[5]));
      auto* t = SUT(new impl::Token(s, loc, tv, tc));
      tokens.add(t);
      Reading e(PS_Token);
      e.r("spelling", nref(s)).s("locus.line", int64_t(loc.line)).s("locus.column", int64_t(loc.column)).s("locus.file", int64_t(loc.file))
       .s("value", int64_t(tv)).s("category", int64_t(tc));
      reg_ref(static_cast<const ipr::Token*>(t), e, true, &obs_token);
      return static_cast<const ipr::Token*>(t);
   }
   case OP_make_basic_attribute: case OP_make_scoped_attribute: case OP_make_labeled_attribute: case OP_make_called_attribute:
   case OP_make_expanded_attribute: case OP_make_factored_attribute: case OP_make_elaborated_attribute: {
      while (tokens.size() < 2) { Op o; o.code = OP_new_token; o.a[0] = op.a[0] + int64_t(tokens.size()); o.a[1] = int64_t(tokens.size()); nested(o); }
      const ipr::Token& t1 = *tokens.pick(op.a[0]);
      const ipr::Token& t2 = *tokens.pick(op.a[0] + 1);
      const ipr::Attribute* a = nullptr;
      Reading e;
      if (code != OP_make_basic_attribute and code != OP_make_scoped_attribute and code != OP_make_elaborated_attribute and attributes.empty()) {
         Op o; o.code = OP_make_basic_attribute; o.a[0] = op.a[0]; nested(o);
      }
      switch (code) {
      case OP_make_basic_attribute: a = &SUT(attrs->make_basic_attribute(t1)); e = Reading(PS_BasicAttribute); e.r("operand", &t1); break;
      case OP_make_scoped_attribute: a = &SUT(attrs->make_scoped_attribute(t1, t2)); e = Reading(PS_ScopedAttribute); e.r("first", &t1).r("second", &t2); break;
      case OP_make_labeled_attribute: { const ipr::Attribute& x = *attributes.pick(op.a[1]); a = &SUT(attrs->make_labeled_attribute(t1, x)); e = Reading(PS_LabeledAttribute); e.r("first", &t1).r("second", &x); break; }
      case OP_make_expanded_attribute: { const ipr::Attribute& x = *attributes.pick(op.a[1]); a = &SUT(attrs->make_expanded_attribute(t1, x)); e = Reading(PS_ExpandedAttribute); e.r("first", &t1).r("second", &x); break; }
      case OP_make_called_attribute: case OP_make_factored_attribute: {
         // the argument sequence is kept by reference: it must live as long as the attribute (owned by the world)
         auto* seq = SUT(new impl::ref_sequence<ipr::Attribute>());
         attr_seqs.push_back(seq);
         std::vector<Ref> el;
         for (uint64_t k = 0; k < uint64_t(op.a[2]) % 4; ++k) { const ipr::Attribute* x = attributes.pick(op.a[1] + int64_t(k)); SUT(seq->push_back(x)); el.push_back(x); }
         if (code == OP_make_called_attribute) { const ipr::Attribute& f = *attributes.pick(op.a[3]); a = &SUT(attrs->make_called_attribute(f, *seq)); e = Reading(PS_CalledAttribute); e.r("first", &f).q("second", el); }
         else { a = &SUT(attrs->make_factored_attribute(t1, *seq)); e = Reading(PS_FactoredAttribute); e.r("first", &t1).q("second", el); }
         break;
      }
      default: { const ipr::Expr& x = E(op.a[1]); a = &SUT(attrs->make_elaborated_attribute(x)); e = Reading(PS_ElaboratedAttribute); e.r("operand", nref(x)); break; }
      }
      reg_ref(a, e, true, &obs_attr);
      attributes.add(a);
      return a;
   }
   // ------------------------------------------------------------------ capture specifications
   case OP_default_capture: {
      const auto m = ipr::Binding_mode(uint64_t(op.a[0]) % 3);
      const auto& c = SUT(caps->default_capture(m));
      Reading e(PS_CapDefault);
      e.s("mode", int64_t(m));
      reg_ref(static_cast<const ipr::Capture_specification*>(&c), e, true, &obs_cap);
      capspecs.add(static_cast<const ipr::Capture_specification*>(&c));
      return static_cast<const ipr::Capture_specification*>(&c);
   }
   case OP_implicit_object_capture: {
      const auto m = ipr::Binding_mode(uint64_t(op.a[0]) % 3);
      const auto& c = SUT(caps->implicit_object_capture(m));
      Reading e(PS_CapImplicit);
      e.s("how", int64_t(m));
      reg_ref(static_cast<const ipr::Capture_specification*>(&c), e, true, &obs_cap);
      capspecs.add(static_cast<const ipr::Capture_specification*>(&c));
      return static_cast<const ipr::Capture_specification*>(&c);
   }
   case OP_enclosing_local_capture: {
      if (decls.empty()) return nullptr;
      const ipr::Decl& d = *decls.pick(op.a[0]);
      const auto m = ipr::Binding_mode(uint64_t(op.a[1]) % 3);
      const auto& c = SUT(caps->enclosing_local_capture(d, m));
      Reading e(PS_CapEnclosing);
      e.s("mode", int64_t(m)).r("declaration", nref(d));
      // name(): the declaration's name when it is an identifier, otherwise refused
      Ref nm = ABSENT;
      try { if (ipr::util::view<ipr::Identifier>(d.name())) nm = nref(d.name()); }
      catch (const std::logic_error&) { }
      e.r("name", nm);
      reg_ref(static_cast<const ipr::Capture_specification*>(&c), e, true, &obs_cap);
      capspecs.add(static_cast<const ipr::Capture_specification*>(&c));
      named_capspecs.add(static_cast<const ipr::Capture_specification::Named*>(&c));
      return static_cast<const ipr::Capture_specification*>(&c);
   }
   case OP_binding_capture: {
      const ipr::Identifier& id = Id(op.a[0]);
      const ipr::Expr& x = E(op.a[1]);
      const auto m = ipr::Binding_mode(uint64_t(op.a[2]) % 3);
      const auto& c = SUT(caps->binding_capture(id, x, m));
      Reading e(PS_CapBinding);
      e.s("mode", int64_t(m)).r("name", nref(id)).r("initializer", nref(x));
      reg_ref(static_cast<const ipr::Capture_specification*>(&c), e, true, &obs_cap);
      capspecs.add(static_cast<const ipr::Capture_specification*>(&c));
      named_capspecs.add(static_cast<const ipr::Capture_specification::Named*>(&c));
      return static_cast<const ipr::Capture_specification*>(&c);
   }
   case OP_expansion_capture: {
      if (named_capspecs.empty()) { Op o; o.code = OP_binding_capture; o.a[0] = op.a[0]; o.a[1] = op.a[1]; nested(o); }
      const ipr::Capture_specification::Named& n = *named_capspecs.pick(op.a[0]);
      const auto& c = SUT(caps->expansion_capture(n));
      Reading e(PS_CapExpansion);
      e.r("what", static_cast<const ipr::Capture_specification*>(&n));
      reg_ref(static_cast<const ipr::Capture_specification*>(&c), e, true, &obs_cap);
      capspecs.add(static_cast<const ipr::Capture_specification*>(&c));
      return static_cast<const ipr::Capture_specification*>(&c);
   }
   // ------------------------------------------------------------------ setters: fields the client explicitly sets
   case OP_set_decl_fields: {
      const uint64_t which = uint64_t(op.a[0]) % 14;
      const int64_t i = op.a[1];
      auto set_all = [&](const ipr::Decl& d, const char* key, Ref v) { for_each_in_set(d, [&](Rec& rc) { rc.exp.set_r(key, v); }); };
      switch (which) {
      case 0: if (auto d = ivars.pick(i)) { const ipr::Expr& x = Eo(op.a[2], nref(*d)); d->init = Optional<ipr::Expr>(x); if (Rec* rc = rec(nref(*d))) rc->exp.set_r("initializer", nref(x)); return nref(*d); } break;
      case 1: if (auto d = ivars.pick(i)) { const ipr::Region& r = AnyR(op.a[2]); d->lexreg = &r; if (Rec* rc = rec(nref(*d))) rc->exp.set_r("lexical_region", nref(r)); return nref(*d); } break;
      case 2: if (auto d = ivars.pick(i)) { const ipr::Region& r = AnyR(op.a[2]); d->decl_data.master_data->home = &r; set_all(*d, "home_region", nref(r)); return nref(*d); } break;
      case 3: if (auto d = ivars.pick(i)) { const ipr::Linkage& l = *linkages.pick(op.a[2]); d->decl_data.master_data->langlinkage = &l; set_all(*d, "linkage", nref(l.language().what())); return nref(*d); } break;
      case 4: if (auto d = ivars.pick(i)) { d->decl_data.master_data->def = Optional<ipr::Var>(static_cast<const ipr::Var*>(d)); set_all(*d, "definition", nref(*d)); return nref(*d); } break;
      case 5: if (auto d = ivars.pick(i)) { auto sp = ipr::Specifiers(uint64_t(op.a[2]) % 1024); d->specifiers(sp); if (Rec* rc = rec(nref(*d))) rc->exp.set_s("specifiers", int64_t(sp)); return nref(*d); } break;
      case 6: if (auto d = ifields.pick(i)) { const ipr::Expr& x = Eo(op.a[2], nref(*d)); d->init = Optional<ipr::Expr>(x); if (Rec* rc = rec(nref(*d))) rc->exp.set_r("initializer", nref(x)); return nref(*d); } break;
      case 7: if (auto d = ibitfields.pick(i)) { const ipr::Expr& x = Eo(op.a[2], nref(*d)); d->length = &x; if (Rec* rc = rec(nref(*d))) rc->exp.set_r("precision", nref(x)); return nref(*d); } break;
      case 8: if (auto d = itypedecls.pick(i)) {
            const ipr::Type& t = T(op.a[2]);
            if (not older(nref(t), nref(*d))) break;
            // A user-defined type as initializer means "print its body here".  To keep the print graph acyclic only
            // leaf bodies are used that way (no member of theirs prints another body), the declaration must not
            // live inside that body, and the body is sealed afterwards (no further members).
            if (Rec* tr = rec(nref(t)); tr != nullptr and is_udt_category(tr->exp.cat)) {
               Rec* dr = rec(nref(*d));
               if (dr == nullptr or not can_seal_as_body(t, dr->seq)) break;
               sealed_bodies.insert(nref(t));
               body_printers.insert(nref(*d));
            }
            d->init = Optional<ipr::Type>(t);
            if (Rec* rc = rec(nref(*d))) rc->exp.set_r("initializer", nref(t));
            return nref(*d);
         } break;
      case 9: if (auto d = ifundecls.pick(i)) {
            if (uint64_t(op.a[3]) % 4 == 3) {
               // marked as a definition whose mapping has not been supplied yet: the mapping alternative holds nothing
               d->data.emplace<1>(nullptr);
               if (Rec* rc = rec(nref(*d))) { rc->exp.set_r("mapping", nullptr); rc->exp.set_r("initializer", nullptr); rc->exp.set_r("parameters", ABSENT); }
               return nref(*d);
            }
            if (mappings.empty()) break;
            impl::Mapping* m = mappings.pick(op.a[2]);
            if (not older(nref(*m), nref(*d))) break;
            d->data.emplace<1>(m);
            if (Rec* rc = rec(nref(*d))) { rc->exp.set_r("mapping", nref(*m)); rc->exp.set_r("initializer", nref(*m)); rc->exp.set_r("parameters", nref(m->inputs)); }
            return nref(*d);
         } break;
      case 10: if (auto d = iparams.pick(i)) { const ipr::Expr& x = Eo(op.a[2], bound_for(nref(*d))); d->init = Optional<ipr::Expr>(x); if (Rec* rc = rec(nref(*d))) rc->exp.set_r("initializer", nref(x)); return nref(*d); } break;
      case 11: if (auto d = itemplates.pick(i)) {
            if (mappings.empty()) break;
            impl::Mapping* m = mappings.pick(op.a[2]);
            if (not older(nref(*m), nref(*d))) break;
            d->init = m;
            for (auto& kv : template_mapping) kv.second.erase(std::remove(kv.second.begin(), kv.second.end(), nref(*d)), kv.second.end());
            if (Rec* rc = rec(nref(*d))) {
               rc->exp.set_r("mapping", nref(*m));
               const Slot* res = nullptr;
               if (Rec* mr = rec(nref(*m))) res = mr->exp.find("result");
               rc->exp.set_r("initializer", res ? res->ref : ABSENT);
               template_mapping[nref(*m)].push_back(nref(*d));
            }
            return nref(*d);
         } break;
      case 12: {
            // lexical regions of the declarations that have their own
            const ipr::Region& r = AnyR(op.a[2]);
            if (uint64_t(op.a[3]) % 3 == 0) { if (auto d = itypedecls.pick(i)) { d->lexreg = &r; if (Rec* rc = rec(nref(*d))) rc->exp.set_r("lexical_region", nref(r)); return nref(*d); } }
            else if (uint64_t(op.a[3]) % 3 == 1) { if (auto d = ifundecls.pick(i)) { d->lexreg = &r; if (Rec* rc = rec(nref(*d))) rc->exp.set_r("lexical_region", nref(r)); return nref(*d); } }
            else if (auto d = itemplates.pick(i)) { d->lexreg = &r; if (Rec* rc = rec(nref(*d))) rc->exp.set_r("lexical_region", nref(r)); return nref(*d); }
         } break;
      default: if (auto d = ienumerators.pick(i)) { const ipr::Expr& x = Eo(op.a[2], nref(*d)); d->init = Optional<ipr::Expr>(x); if (Rec* rc = rec(nref(*d))) rc->exp.set_r("initializer", nref(x)); return nref(*d); } break;
      }
      return nullptr;
   }
   case OP_set_stmt_fields: {
      if (stmt_handles.empty()) return nullptr;
      auto& h = stmt_handles[size_t(uint64_t(op.a[0]) % stmt_handles.size())];
      // large sentinel locations, unique per call
      h.set(int(uint64_t(op.a[1]) % 3), 100000 + op.a[2] % 900000, 200000 + op.a[3] % 700000, 300000 + op.a[4] % 600000);
      return h.node;
   }
   case OP_set_loop_fields: {
      const uint64_t which = uint64_t(op.a[0]) % 8;
      const int64_t i = op.a[1];
      Ref target = nullptr;
      switch (which) {
      case 0: case 1: if (auto n = dos.pick(i)) target = nref(*n); break;
      case 2: case 3: if (auto n = whiles.pick(i)) target = nref(*n); break;
      case 4: if (auto n = switches.pick(i)) target = nref(*n); break;
      case 5: if (auto n = fors.pick(i)) target = nref(*n); break;
      case 6: if (auto n = for_ins.pick(i)) target = nref(*n); break;
      default:
         if (uint64_t(op.a[4]) % 2 == 0) { if (auto n = breaks.pick(i)) target = nref(*n); }
         else if (auto n = continues.pick(i)) target = nref(*n);
         break;
      }
      if (target == nullptr) return nullptr;
      const ipr::Expr& x = Eo(op.a[2], target);
      const ipr::Stmt* st = So(op.a[3], target);
      switch (which) {
      case 0: if (auto n = dos.pick(i)) { n->control = &x; if (Rec* rc = rec(nref(*n))) rc->exp.set_r("first", nref(x)); return nref(*n); } break;
      case 1: if (auto n = dos.pick(i)) { n->stmt = &x; if (Rec* rc = rec(nref(*n))) { rc->exp.set_r("second", nref(x)); rc->exp.erase("type"); rc->borrow = &x; } return nref(*n); } break;
      case 2: if (auto n = whiles.pick(i)) { n->control = &x; if (Rec* rc = rec(nref(*n))) rc->exp.set_r("first", nref(x)); return nref(*n); } break;
      case 3: if (auto n = whiles.pick(i)) { n->stmt = &x; if (Rec* rc = rec(nref(*n))) { rc->exp.set_r("second", nref(x)); rc->exp.erase("type"); rc->borrow = &x; } return nref(*n); } break;
      case 4: if (auto n = switches.pick(i)) { n->control = &x; n->stmt = &x; if (Rec* rc = rec(nref(*n))) { rc->exp.set_r("first", nref(x)); rc->exp.set_r("second", nref(x)); rc->exp.erase("type"); rc->borrow = &x; } return nref(*n); } break;
      case 5: if (auto n = fors.pick(i)) {
            const uint64_t f = uint64_t(op.a[4]) % 4;
            if (f == 0) { n->init = &x; if (Rec* rc = rec(nref(*n))) rc->exp.set_r("initializer", nref(x)); }
            else if (f == 1) { n->cond = &x; if (Rec* rc = rec(nref(*n))) rc->exp.set_r("condition", nref(x)); }
            else if (f == 2) { n->inc = &x; if (Rec* rc = rec(nref(*n))) rc->exp.set_r("increment", nref(x)); }
            else if (st != nullptr and nref(*st) != nref(*n)) {
               n->stmt = st;
               if (Rec* rc = rec(nref(*n))) { rc->exp.set_r("body", nref(*st)); rc->exp.erase("type"); rc->borrow = st; }
            }
            return nref(*n);
         } break;
      case 6: if (auto n = for_ins.pick(i)) {
            const uint64_t f = uint64_t(op.a[4]) % 3;
            if (f == 0 and not vars.empty()) {
               // the loop variable is printed in full by the loop: like every link set later, it goes to an older node
               const ipr::Var* v = nullptr;
               for (int k = 0; k < 6 and v == nullptr; ++k) { const ipr::Var* c = vars.pick(op.a[5] + k); if (c != nullptr and older(nref(*c), nref(*n))) v = c; }
               if (v == nullptr) return nref(*n);
               n->var = v;
               if (Rec* rc = rec(nref(*n))) rc->exp.set_r("variable", nref(*v));
            }
            else if (f == 1) { n->seq = &x; if (Rec* rc = rec(nref(*n))) rc->exp.set_r("sequence", nref(x)); }
            else if (st != nullptr and nref(*st) != nref(*n)) {
               n->stmt = st;
               if (Rec* rc = rec(nref(*n))) { rc->exp.set_r("body", nref(*st)); rc->exp.erase("type"); rc->borrow = st; }
            }
            return nref(*n);
         } break;
      default:
         if (st == nullptr) break;
         if (uint64_t(op.a[4]) % 2 == 0) { if (auto n = breaks.pick(i)) { n->stmt = st; if (Rec* rc = rec(nref(*n))) rc->exp.set_r("from", nref(*st)); return nref(*n); } }
         else if (auto n = continues.pick(i)) { n->stmt = st; if (Rec* rc = rec(nref(*n))) rc->exp.set_r("iteration", nref(*st)); return nref(*n); }
         break;
      }
      return nullptr;
   }
   case OP_set_expr_fields: {
      const uint64_t which = uint64_t(op.a[0]) % 6;
      switch (which) {
      case 0: if (not classics.empty()) { auto& h = classics[size_t(uint64_t(op.a[1]) % classics.size())]; const ipr::Expr& x = Eo(op.a[2], h.node); h.set(&x); if (Rec* rc = rec(h.node)) rc->exp.set_r("implementation", nref(x)); return h.node; } break;
      case 1: if (not typed_exprs.empty()) { auto& h = typed_exprs[size_t(uint64_t(op.a[1]) % typed_exprs.size())]; const ipr::Type& t = To(op.a[2], h.node); h.set(&t); if (Rec* rc = rec(h.node)) rc->exp.set_r("type", nref(t)); return h.node; } break;
      case 2: if (auto n = id_exprs.pick(op.a[1])) { const ipr::Expr& x = Eo(op.a[2], nref(*n)); n->decls = Optional<ipr::Expr>(x); if (Rec* rc = rec(nref(*n))) rc->exp.set_r("resolution", nref(x)); return nref(*n); } break;
      case 3: if (auto n = news.pick(op.a[1])) { n->global = uint64_t(op.a[2]) % 2; if (Rec* rc = rec(nref(*n))) rc->exp.set_s("global_requested", int64_t(n->global)); return nref(*n); } break;
      case 4: if (auto n = insts.pick(op.a[1])) { const ipr::Expr& x = Eo(op.a[2], nref(*n)); n->result = Optional<ipr::Expr>(x); if (Rec* rc = rec(nref(*n))) { rc->exp.set_r("instance", nref(x)); rc->exp.erase("type"); rc->borrow = &x; } return nref(*n); } break;
      default: if (auto n = wheres.pick(op.a[1])) { const ipr::Expr& x = Eo(op.a[2], nref(*n)); n->result = &x; if (Rec* rc = rec(nref(*n))) { rc->exp.set_r("first", nref(x)); rc->exp.erase("type"); rc->borrow = &x; } return nref(*n); } break;
      }
      return nullptr;
   }
   case OP_set_udt_fields: {
      const uint64_t which = uint64_t(op.a[0]) % 6;
      switch (which) {
      case 0: if (auto u = classes.pick(op.a[1])) { const ipr::Name& n = No(op.a[2], nref(*u)); u->id = Optional<ipr::Name>(n); if (Rec* rc = rec(nref(*u))) rc->exp.set_r("name", nref(n)); return nref(*u); } break;
      case 1: if (auto u = unions.pick(op.a[1])) { const ipr::Name& n = No(op.a[2], nref(*u)); u->id = Optional<ipr::Name>(n); if (Rec* rc = rec(nref(*u))) rc->exp.set_r("name", nref(n)); return nref(*u); } break;
      case 2: if (auto u = namespaces.pick(op.a[1])) { const ipr::Name& n = No(op.a[2], nref(*u)); u->id = Optional<ipr::Name>(n); if (Rec* rc = rec(nref(*u))) rc->exp.set_r("name", nref(n)); return nref(*u); } break;
      case 3: if (auto u = closures.pick(op.a[1])) { const ipr::Name& n = No(op.a[2], nref(*u)); u->id = Optional<ipr::Name>(n); if (Rec* rc = rec(nref(*u))) rc->exp.set_r("name", nref(n)); return nref(*u); } break;
      case 4: if (auto u = enums.pick(op.a[1])) { const ipr::Name& n = No(op.a[2], nref(*u)); u->id = Optional<ipr::Name>(n); if (Rec* rc = rec(nref(*u))) rc->exp.set_r("name", nref(n)); return nref(*u); } break;
      default: if (auto u = enums.pick(op.a[1])) { const ipr::Type& t = To(op.a[3], nref(*u)); if (nref(t) == nref(*u)) break; u->underlying = Optional<ipr::Type>(t); if (Rec* rc = rec(nref(*u))) rc->exp.set_r("base", nref(t)); return nref(*u); } break;
      }
      return nullptr;
   }
   case OP_set_form_fields: {
      const uint64_t which = uint64_t(op.a[0]) % 9;
      switch (which) {
      case 0: if (auto c = polyadics.pick(op.a[1])) { const ipr::Expr& x = Eo(op.a[2], static_cast<const form::Constraint*>(c)); SUT(c->args.push_back(&x)); if (Rec* rc = rec(static_cast<const form::Constraint*>(c))) rc->exp.append("trailing_arguments", nref(x)); return static_cast<const form::Constraint*>(c); } break;
      case 1: if (auto q = compound_reqs.pick(op.a[1])) {
            q->has_noexcept = uint64_t(op.a[2]) % 2;
            if (Rec* rc = rec(static_cast<const form::Requirement*>(q))) rc->exp.set_s("nothrow", int64_t(q->has_noexcept));
            if (not constraints.empty()) { const form::Constraint* c = constraints.pick(op.a[3]); q->type = Optional<form::Constraint>(c); if (Rec* rc = rec(static_cast<const form::Requirement*>(q))) rc->exp.set_r("constraint", c); }
            return static_cast<const form::Requirement*>(q);
         } break;
      case 2: if (auto m = fun_morphisms.pick(op.a[1])) {
            const ipr::Expr& x = E(op.a[2]);
            m->eh_spec = Optional<ipr::Expr>(x); m->quals = quals(op.a[3]); m->ref_qual = ipr::Binding_mode(uint64_t(op.a[4]) % 3);
            if (Rec* rc = rec(static_cast<const form::Morphism*>(m))) { rc->exp.set_r("throws", nref(x)); rc->exp.set_s("qualifiers", int64_t(m->quals)); rc->exp.set_s("binding_mode", int64_t(m->ref_qual)); }
            return static_cast<const form::Morphism*>(m);
         } break;
      case 3: if (auto m = arr_morphisms.pick(op.a[1])) { const ipr::Expr& x = E(op.a[2]); m->array_bound = Optional<ipr::Expr>(x); if (Rec* rc = rec(static_cast<const form::Morphism*>(m))) rc->exp.set_r("bound", nref(x)); return static_cast<const form::Morphism*>(m); } break;
      case 4: if (auto d = term_declarators.pick(op.a[1])) {
            if (indirectors.empty()) break;
            const form::Indirector* i = indirectors.pick(op.a[2]);
            SUT(d->prefix.push_back(i));
            if (Rec* rc = rec(static_cast<const form::Declarator*>(d))) rc->exp.append("indirectors", i);
            return static_cast<const form::Declarator*>(d);
         } break;
      case 5: if (auto d = term_declarators.pick(op.a[1])) {
            if (species.empty()) break;
            const form::Species_declarator* s = species.pick(op.a[2]);
            d->tail = const_cast<form::Species_declarator*>(s);
            if (Rec* rc = rec(static_cast<const form::Declarator*>(d))) rc->exp.set_r("species", s);
            return static_cast<const form::Declarator*>(d);
         } break;
      case 6: if (auto s = paren_species.pick(op.a[1])) {
            if (term_declarators.empty()) break;
            form::impl::Term_declarator* d = term_declarators.pick(op.a[2]);
            s->declarator = static_cast<const form::Declarator::Term*>(d);
            if (Rec* rc = rec(static_cast<const form::Species_declarator*>(s))) rc->exp.set_r("term", static_cast<const form::Declarator*>(d));
            return static_cast<const form::Species_declarator*>(s);
         } break;
      case 7: if (auto b = braced.pick(op.a[1])) {
            const form::Elemental_initializer* x = elementals.pick(op.a[2]);
            if (x == static_cast<const form::Elemental_initializer*>(b)) break;
            SUT(b->seq.push_back(x));
            if (Rec* rc = rec(static_cast<const form::Initialization_provision*>(b))) rc->exp.append("elements", x);
            return static_cast<const form::Initialization_provision*>(b);
         } break;
      default: if (auto d = designated.pick(op.a[1])) {
            if (designators.empty() or provisions.empty()) break;
            const form::Subobject_designator* sd = designators.pick(op.a[2]);
            const form::Initialization_provision* pv = provisions.pick(op.a[3]);
            if (pv == static_cast<const form::Initialization_provision*>(d)) break;
            SUT(d->seq.push_back(*sd, *pv));
            if (Rec* rc = rec(static_cast<const form::Initialization_provision*>(d))) { rc->exp.append("elements", sd); rc->exp.append("elements", pv); }
            return static_cast<const form::Initialization_provision*>(d);
         } break;
      }
      return nullptr;
   }
   case OP_set_directive_fields: {
      const uint64_t which = uint64_t(op.a[0]) % 6;
      switch (which) {
      case 0: if (auto n = spreads.pick(op.a[1])) { n->specs = ipr::Specifiers(uint64_t(op.a[2]) % 4096); if (Rec* rc = rec(nref(*n))) rc->exp.set_s("specifiers", int64_t(n->specs)); return nref(*n); } break;
      case 1: if (auto n = sbindings.pick(op.a[1])) {
            const ipr::Identifier& id = Id(op.a[2]);
            SUT(n->ids.push_back(&id));
            n->specs = ipr::Specifiers(uint64_t(op.a[3]) % 4096);
            n->binding_mode = ipr::Binding_mode(uint64_t(op.a[4]) % 3);
            if (Rec* rc = rec(nref(*n))) { rc->exp.append("names", nref(id)); rc->exp.set_s("specifiers", int64_t(n->specs)); rc->exp.set_s("mode", int64_t(n->binding_mode)); }
            return nref(*n);
         } break;
      case 2: if (auto n = sbindings.pick(op.a[1])) { const ipr::Expr& x = Eo(op.a[2], nref(*n)); n->init = &x; if (Rec* rc = rec(nref(*n))) rc->exp.set_r("initializer", nref(x)); return nref(*n); } break;
      case 3: if (auto n = sbindings.pick(op.a[1])) { if (decls.empty()) break; const ipr::Decl* d = decls.pick(op.a[2]); SUT(n->decl_seq.push_back(d)); if (Rec* rc = rec(nref(*n))) rc->exp.append("bindings", nref(*d)); return nref(*n); } break;
      case 4: if (auto n = usings.pick(op.a[1])) {
            if (scope_refs.empty()) break;
            const ipr::Scope_ref* sr = scope_refs.pick(op.a[2]);
            const auto mode = ipr::Using_declaration::Designator::Mode(uint64_t(op.a[3]) % 3);
            SUT(n->seq.push_back(*sr, mode));
            if (Rec* rc = rec(nref(*n))) { rc->exp.append("designators", nref(*sr)); rc->exp.append("designators", reinterpret_cast<Ref>(uintptr_t(0x100 + int(mode)))); }
            return nref(*n);
         } break;
      default: if (auto n = pragmas.pick(op.a[1])) {
            const ipr::String& s = S(op.a[2]);
            ipr::Source_location loc;
            loc.line = ipr::Line_number(uint32_t(op.a[3]));
            impl::Token* t = SUT(n->tokens.push_back(s, loc, ipr::TokenValue(uint16_t(op.a[4])), ipr::TokenCategory(uint8_t(op.a[5]))));
            if (Rec* rc = rec(nref(*n))) rc->exp.append("operand", static_cast<const ipr::Token*>(t));
            return nref(*n);
         } break;
      }
      return nullptr;
   }
   case OP_set_callable_fields: {
      const uint64_t which = uint64_t(op.a[0]) % 8;
      switch (which) {
      case 0: if (auto m = mappings.pick(op.a[1])) {
            const ipr::Expr& x = Eo(op.a[2], nref(*m));
            if (Rec* xr = rec(nref(x)); xr != nullptr and is_udt_category(xr->exp.cat)) break;      // a body to be printed in place: not through mappings
            m->body = &x;
            if (Rec* rc = rec(nref(*m))) rc->exp.set_r("result", nref(x));
            for (Ref t : template_mapping[nref(*m)]) if (Rec* tr = rec(t)) tr->exp.set_r("initializer", nref(x));
            return nref(*m);
         } break;
      case 1: if (auto l = lambdas.pick(op.a[1])) { const ipr::Expr& x = Eo(op.a[2], nref(*l)); l->body = &x; if (Rec* rc = rec(nref(*l))) rc->exp.set_r("result", nref(x)); return nref(*l); } break;
      case 2: if (auto l = lambdas.pick(op.a[1])) { if (closures.empty()) break; impl::Closure* c = closures.pick(op.a[2]); l->typing = static_cast<const ipr::Closure*>(c); if (Rec* rc = rec(nref(*l))) rc->exp.set_r("type", nref(*c)); return nref(*l); } break;
      case 3: if (auto l = lambdas.pick(op.a[1])) { const ipr::Type& t = To(op.a[2], nref(*l)); l->value_type = Optional<ipr::Type>(t); if (Rec* rc = rec(nref(*l))) rc->exp.set_r("target", nref(t)); return nref(*l); } break;
      case 4: if (auto l = lambdas.pick(op.a[1])) {
            const ipr::Expr& x = Eo(op.a[2], nref(*l));
            l->decl_constraint = Optional<ipr::Expr>(x); l->eh = Optional<ipr::Expr>(x); l->lam_spec = ipr::Lambda_specifiers(uint64_t(op.a[3]) % 8);
            if (Rec* rc = rec(nref(*l))) { rc->exp.set_r("requirement", nref(x)); rc->exp.set_r("eh_specification", nref(x)); rc->exp.set_s("specifiers", int64_t(l->lam_spec)); }
            return nref(*l);
         } break;
      case 5: if (auto l = lambdas.pick(op.a[1])) { if (capspecs.empty()) break; const ipr::Capture_specification* c = capspecs.pick(op.a[2]); SUT(l->env_spec.push_back(c)); if (Rec* rc = rec(nref(*l))) rc->exp.append("captures", c); return nref(*l); } break;
      case 6: if (auto l = lambdas.pick(op.a[1])) { if (attributes.empty()) break; const ipr::Attribute* a = attributes.pick(op.a[2]); SUT(l->attrs.push_back(a)); if (Rec* rc = rec(nref(*l))) rc->exp.append("attributes", a); return nref(*l); } break;
      default: if (auto q = requireses.pick(op.a[1])) { if (requirements.empty()) break; const form::Requirement* r = requirements.pick(op.a[2]); SUT(q->requirements.push_back(r)); if (Rec* rc = rec(nref(*q))) rc->exp.append("body", r); return nref(*q); } break;
      }
      return nullptr;
   }
   case OP_set_unit_fields: {
      const uint64_t which = uint64_t(op.a[0]) % 4;
      switch (which) {
      case 0: if (auto u = units.pick(op.a[1])) { if (modules.empty()) break; const ipr::Module* m = modules.pick(op.a[2]); SUT(u->imports()->push_back(m)); if (Rec* rc = rec(static_cast<const ipr::Translation_unit*>(u))) rc->exp.append("imported_modules", m); return static_cast<const ipr::Translation_unit*>(u); } break;
      case 1: if (auto m = modules.pick(op.a[1])) { const ipr::Identifier& id = Id(op.a[2]); SUT(m->stems.components.push_back(&id)); if (Rec* rc = rec(static_cast<const ipr::Module*>(m))) rc->exp.append("name.stems", nref(id)); return static_cast<const ipr::Module*>(m); } break;
      case 2: if (auto m = modules.pick(op.a[1])) { if (decls.empty()) break; const ipr::Decl* d = decls.pick(op.a[2]); SUT(m->iface.decls_exported.push_back(d)); if (Rec* rc = rec(static_cast<const ipr::Translation_unit*>(&m->iface))) rc->exp.append("exported_declarations", nref(*d)); return static_cast<const ipr::Translation_unit*>(&m->iface); } break;
      default: if (auto u = module_units.pick(op.a[1])) { if (decls.empty()) break; const ipr::Decl* d = decls.pick(op.a[2]); SUT(u->owned_decls.push_back(d)); if (Rec* rc = rec(static_cast<const ipr::Translation_unit*>(u))) rc->exp.append("purview", nref(*d)); return static_cast<const ipr::Translation_unit*>(u); } break;
      }
      return nullptr;
   }
   // ------------------------------------------------------------------ noise
   case OP_noise_alloc:
      noise_blocks.push_back(sim::heap::noise_alloc(size_t(8 + uint64_t(op.a[0]) % 300)));
      return nullptr;
   case OP_noise_free:
      if (not noise_blocks.empty()) {
         size_t i = size_t(uint64_t(op.a[0]) % noise_blocks.size());
         sim::heap::noise_free(noise_blocks[i]);
         noise_blocks.erase(noise_blocks.begin() + long(i));
      }
      return nullptr;
   default:
      return nullptr;
   }
}

}

// Macro operations: complete, printable constructs assembled bottom-up from the primitive
// operations (so that units print fully instead of being refused at the first half-built
// declaration), and a word that crosses the string pool's boundaries.
#include "world.hpp"
#include <ipr/traversal>
#include <stdexcept>

namespace model {
using ipr::Category_code;
using ipr::Optional;

namespace {
   Op mk(int code, std::initializer_list<int64_t> a)
   {
      Op o;
      o.code = code;
      int k = 0;
      for (auto v : a) { if (k < 6) o.a[k++] = v; }
      return o;
   }
   // selectors that designate an exact pool index are even (odd selectors prefer recent objects, see Pool::pick)
   template<class T> int64_t last_index(const Pool<T>& p) { return p.empty() ? 0 : 2 * int64_t(p.size() - 1); }
   inline int64_t exact(int64_t index) { return 2 * index; }
}

void World::reg_product(const ipr::Product& prod, const std::vector<const ipr::Type*>& elements)
{
   Reading e(int(Category_code::Product));
   std::vector<Ref> elems;
   for (auto t : elements) elems.push_back(nref(*t));
   e.q("elements", elems);
   expect_composite(e, *this);
   REG(prod, e, false);
   add_type(prod);
   products.add_unique(&prod);
}

Ref World::apply_macros(const Op& op)
{
   const int code = ((op.code % OP_COUNT) + OP_COUNT) % OP_COUNT;
   const ipr::Lexicon& L = *lex;
   switch (code) {
   case OP_get_string_huge: {
      // lengths around the over-size threshold (65536) and the pool capacity (1 MiB); the pool may already be partly filled
      // half of them within 9 bytes of a capacity boundary (byte by byte), the others well inside a size class
      static const size_t bases[] = { 65536 - 8, 65536, 1048576 - 8, 1048576, 70000, 300000, 700000, 1200000 };
      const uint64_t a0 = uint64_t(op.a[0]);
      size_t n = bases[a0 % 8];
      if (a0 % 8 < 4) n = n + size_t((a0 / 8 + uint64_t(op.a[2]) * 7 + uint64_t(op.a[3]) * 3) % 19) - 9;      // selectors are small: mix three of them
      std::u8string w(n, char8_t('a' + uint64_t(op.a[1]) % 26));
      for (size_t i = 0; i < n; i += 4099) w[i] = char8_t('A' + (i / 4099 + uint64_t(op.a[1])) % 26);
      w[n - 1] = char8_t('0' + uint64_t(op.a[1]) % 10);
      const ipr::String& s = SUT(lex->get_string(w));
      const std::string b(reinterpret_cast<const char*>(w.data()), w.size());
      Reading e{ int(Category_code::String) };
      e.s("size", int64_t(b.size())).s("bytes", bytes_hash(b.data(), b.size()));
      REG(s, e, false);
      UKey k; k.words = { b };
      unify(OP_get_string, k, nref(s), "get_string");
      return nref(s);
   }
   case OP_macro_var: {
      // name : type (initializer), with home region, lexical region and linkage set
      impl::Region& rg = R(op.a[0]);
      int64_t ri = 0, ai = 0;
      for (size_t k = 0; k < regions.size(); ++k) if (regions.v[k] == &rg) ri = int64_t(k);
      for (size_t k = 0; k < any_regions.size(); ++k) if (any_regions.v[k] == static_cast<const ipr::Region*>(&rg)) ai = int64_t(k);
      Ref d = nested(mk(OP_make_var, { exact(ri), op.a[1], op.a[2] }));
      if (d == nullptr or failed()) return d;
      const int64_t vi = last_index(ivars);
      nested(mk(OP_set_decl_fields, { 0, vi, op.a[3] }));                     // initializer (older than the variable)
      nested(mk(OP_set_decl_fields, { 1, vi, exact(ai) }));                   // lexical region
      nested(mk(OP_set_decl_fields, { 2, vi, exact(ai) }));                   // home region
      nested(mk(OP_set_decl_fields, { 3, vi, op.a[4] }));                     // linkage
      if (uint64_t(op.a[5]) % 3 == 0) nested(mk(OP_set_stmt_fields, { int64_t(stmt_handles.size()) - 1, 0, op.a[3], op.a[4], op.a[5] }));
      return d;
   }
   case OP_macro_stmt_tree: {
      // statements built bottom-up: leaves, loops and conditionals over them, a block containing them, optionally a handler
      (void) R(op.a[0]);
      const int64_t width = 2 + int64_t(uint64_t(op.a[1]) % 4);
      std::vector<Ref> made;
      for (int64_t k = 0; k < width; ++k) {
         switch (uint64_t(op.a[2] + k) % 5) {
         case 0: made.push_back(nested(mk(OP_make_expr_stmt, { op.a[3] + k }))); break;
         case 1: made.push_back(nested(mk(OP_make_return, { op.a[3] + 2 * k }))); break;
         case 2: made.push_back(nested(mk(OP_make_break, { }))); break;
         case 3: made.push_back(nested(mk(OP_make_goto, { op.a[3] + k }))); break;
         default: made.push_back(nested(mk(OP_make_continue, { }))); break;
         }
         if (uint64_t(op.a[4] + k) % 2 == 0) nested(mk(OP_set_stmt_fields, { int64_t(stmt_handles.size()) - 1, 0, op.a[3] + k, op.a[4] + k, op.a[5] + k }));
      }
      const int64_t s0 = int64_t(stmts.size());
      // compound statements over the leaves (their parts are older than they are)
      nested(mk(OP_make_if3, { op.a[3], (s0 - 1) * 26 + 6, (s0 - 2) * 26 + 6 }));
      Ref w = nested(mk(OP_make_while, { }));
      if (w) { nested(mk(OP_set_loop_fields, { 2, last_index(whiles), op.a[3], 0 })); nested(mk(OP_set_loop_fields, { 3, last_index(whiles), (s0 - 1) * 26 + 6, 0 })); }
      Ref f = nested(mk(OP_make_for, { }));
      if (f) for (int64_t part = 0; part < 4; ++part) nested(mk(OP_set_loop_fields, { 5, last_index(fors), op.a[3] + part, exact(s0 - 1 - part), part }));
      Ref dw = nested(mk(OP_make_do, { }));
      if (dw) { nested(mk(OP_set_loop_fields, { 0, last_index(dos), op.a[3] + 1, 0 })); nested(mk(OP_set_loop_fields, { 1, last_index(dos), (s0 - 2) * 26 + 6, 0 })); }
      nested(mk(OP_make_labeled_stmt, { op.a[3] + 2, (s0 - 1) * 26 + 6 }));
      // the block that contains them
      Ref b = nested(mk(OP_make_block, { op.a[0], op.a[5] }));
      if (b == nullptr) return nullptr;
      const int64_t bi = last_index(blocks);
      const int64_t s1 = int64_t(stmts.size());
      for (int64_t k = 0; k < s1 - s0 + width and k < 10; ++k) nested(mk(OP_block_add_stmt, { bi, (s1 - 2 - k) * 26 + 6 }));
      if (uint64_t(op.a[5]) % 3 == 0) {
         nested(mk(OP_block_new_handler, { bi, op.a[1], op.a[2] }));
         nested(mk(OP_handler_add_stmt, { last_index(handlers), (s0 - 1) * 26 + 6 }));
      }
      return b;
   }
   case OP_macro_function: {
      // f : (params) -> R with a defining mapping: parameters, a block body, home/lexical regions, linkage
      impl::Region& rg = R(op.a[0]);
      const size_t nparams = size_t(uint64_t(op.a[2]) % 4);
      // the function type
      ArenaWarehouse wh;
      std::vector<const ipr::Type*> ptypes;
      for (size_t i = 0; i < nparams; ++i) { ptypes.push_back(&T(op.a[3] + int64_t(i) * 3)); SUT(wh->push_back(*ptypes.back())); }
      const ipr::Product* prod;
      prod = &SUT(lex->get_product(*wh));
      wh.release();
      const ipr::Type& ret = T(op.a[4]);
      const ipr::Function& ft = SUT(lex->get_function(*prod, ret));
      reg_product(*prod, ptypes);
      {
         Reading e(int(Category_code::Function));
         e.r("first", nref(*prod)).r("second", nref(ret)).r("third", nref(L.false_value()));
         e.r("type", nref(L.typename_type())).r("transfer.linkage", nref(L.cxx_linkage().language().what())).r("transfer.convention", nref(ipr::String::empty_string()));
         REG(ft, e, false);
      }
      add_type(ft);
      functions.add_unique(&ft);
      // the body: a statement tree built first (it must be older than the mapping)
      Ref body = nested(mk(OP_macro_stmt_tree, { op.a[0], op.a[2], op.a[3], op.a[4], op.a[5], op.a[1] + 1 }));
      if (failed()) return nullptr;
      // the mapping, typed with the function type
      Ref mref = nested(mk(OP_make_mapping, { op.a[0], op.a[5] }));
      if (mref == nullptr) return nullptr;
      impl::Mapping* m = mappings.v.back();
      m->typing = Optional<ipr::Type>(ft);
      if (Rec* rc = rec(nref(*m))) rc->exp.set_r("type", nref(ft));
      for (size_t i = 0; i < nparams; ++i) {
         // parameter names are made distinct by construction
         const ipr::Identifier& pn = SUT(lex->get_identifier(word(int64_t(100 + i + size_t(uint64_t(op.a[1]) % 5) * 4), 1)));
         note_identifier(pn);
         idents.add_unique(&pn); names.add_unique(&pn);
         add_parameter(&m->inputs, m, pn, *ptypes[i]);
      }
      if (body != nullptr and older(body, nref(*m))) {
         m->body = static_cast<const ipr::Expr*>(static_cast<const ipr::Node*>(body));
         if (Rec* rc = rec(nref(*m))) rc->exp.set_r("result", body);
      }
      // the declaration
      impl::Scope& sc = rg.scope;
      if (region_sealed(rg)) return mref;
      ScopeModel& sm = scopes[&sc];
      if (sm.scope == nullptr) { sm.scope = &sc; sm.region = &rg; }
      const ipr::Name& nm = N(op.a[1]);
      for (auto& de : sm.decls) if (de.name == &nm and de.type == &ft and de.kind != OP_make_fundecl) return mref;
      const ipr::Decl* first = nullptr;
      for (auto& de : sm.decls) if (de.name == &nm and de.type == &ft and first == nullptr) first = de.decl;
      touching = &sc;
      impl::Fundecl* d = SUT(sc.make_fundecl(nm, ft));
      SUT_DO(d->data.emplace<1>(m));
      d->lexreg = &rg;
      Reading e{ int(Category_code::Fundecl) };
      expect_stmt_defaults(e);
      e.r("type", nref(ft)).s("specifiers", 0).r("name", nref(nm)).r("lexical_region", nref(rg));
      e.r("initializer", nref(*m)).r("mapping", nref(*m)).r("parameters", nref(static_cast<const ipr::Parameter_list&>(m->inputs)));
      sm.decls.push_back({ d, &nm, &ft, OP_make_fundecl });
      if (first == nullptr) {
         d->decl_data.master_data->home = &rg;
         d->decl_data.master_data->langlinkage = &L.cxx_linkage();
         e.r("home_region", nref(rg)).r("linkage", nref(L.cxx_linkage().language().what())).r("definition", nullptr);
      }
      REG(static_cast<const ipr::Fundecl&>(*d), e, true);
      ifundecls.add(d); decls.add(d);
      return nref(*d);
   }
   case OP_macro_class: {
      // a named user-defined type (class with fields, one initialised, and a base; union; enum with enumerators; namespace with
      // variables) and a type declaration that defines it (its body is printed in place)
      impl::Region& rg = R(op.a[0]);
      const uint64_t kind = uint64_t(op.a[5]) % 4;
      const ipr::Type* udt = nullptr;
      impl::Region* body = nullptr;
      const ipr::Type* kind_type = &L.class_type();
      Ref c = nullptr;
      if (kind == 0) {
         c = nested(mk(OP_make_class, { op.a[0] }));
         if (c == nullptr) return nullptr;
         impl::Class* cls = classes.v.back();
         nested(mk(OP_set_udt_fields, { 0, last_index(classes), op.a[1] }));
         udt = cls; body = &cls->body;
      } else if (kind == 1) {
         c = nested(mk(OP_make_union, { op.a[0] }));
         if (c == nullptr) return nullptr;
         impl::Union* u = unions.v.back();
         nested(mk(OP_set_udt_fields, { 1, last_index(unions), op.a[1] }));
         udt = u; body = &u->body; kind_type = &L.union_type();
      } else if (kind == 2) {
         c = nested(mk(OP_make_enum, { op.a[0], op.a[2] }));
         if (c == nullptr) return nullptr;
         impl::Enum* en = enums.v.back();
         nested(mk(OP_set_udt_fields, { 4, last_index(enums), op.a[1] }));
         for (int64_t k = 0; k < 1 + int64_t(uint64_t(op.a[2]) % 4); ++k) {
            nested(mk(OP_enum_add_member, { last_index(enums), op.a[3] + 3 * k + 1 }));
            if (k == 1 and not ienumerators.empty()) nested(mk(OP_set_decl_fields, { 13, last_index(ienumerators), op.a[4] }));
         }
         udt = en; kind_type = &L.enum_type();
      } else {
         c = nested(mk(OP_make_namespace, { op.a[0] }));
         if (c == nullptr) return nullptr;
         impl::Namespace* ns = namespaces.v.back();
         nested(mk(OP_set_udt_fields, { 2, last_index(namespaces), op.a[1] }));
         udt = ns; body = &ns->body; kind_type = &L.namespace_type();
      }
      if (body != nullptr) {
         // members are declared in the body: find its region's index among the heterogeneous regions
         int64_t body_region = 0;
         for (size_t k = 0; k < regions.size(); ++k) if (regions.v[k] == body) body_region = int64_t(k);
         const int64_t nmembers = 1 + int64_t(uint64_t(op.a[2]) % 4);
         for (int64_t k = 0; k < nmembers; ++k) {
            if (kind == 3) nested(mk(OP_macro_var, { exact(body_region), op.a[3] + 3 * k + 1, op.a[4] + k, op.a[2] + k, k, k }));
            else {
               nested(mk(OP_make_field, { exact(body_region), op.a[3] + 3 * k + 1, op.a[4] + k }));
               if (k == 0 and not ifields.empty()) nested(mk(OP_set_decl_fields, { 6, last_index(ifields), op.a[2] }));
            }
         }
         if (kind == 0 and uint64_t(op.a[2]) % 2 == 0) nested(mk(OP_class_declare_base, { last_index(classes), op.a[4] + 7 }));
      }
      if (failed()) return c;
      // the defining type declaration, newer than every member: the body is sealed from here on
      if (region_sealed(rg)) return c;
      int64_t ti = 0;
      for (size_t k = 0; k < types.size(); ++k) if (types.v[k] == udt) ti = int64_t(k);
      int64_t ri = 0;
      for (size_t k = 0; k < regions.size(); ++k) if (regions.v[k] == &rg) ri = int64_t(k);
      int64_t kind_type_index = 0;
      for (size_t k = 0; k < types.size(); ++k) if (types.v[k] == kind_type) kind_type_index = int64_t(k);
      Ref td = nested(mk(OP_make_typedecl, { exact(ri), op.a[1], exact(kind_type_index) }));
      if (td != nullptr) nested(mk(OP_set_decl_fields, { 8, last_index(itypedecls), exact(ti) }));
      return c;
   }
   case OP_macro_template: {
      // name : <params> initializer — a primary template over a Forall type with a mapping
      impl::Region& rg = R(op.a[0]);
      if (region_sealed(rg)) return nullptr;
      ArenaWarehouse wh;
      const size_t nparams = 1 + size_t(uint64_t(op.a[2]) % 3);
      std::vector<const ipr::Type*> ptypes;
      for (size_t i = 0; i < nparams; ++i) { ptypes.push_back(i == 0 ? &L.typename_type() : &T(op.a[3] + int64_t(i))); SUT(wh->push_back(*ptypes.back())); }
      const ipr::Product* prod;
      prod = &SUT(lex->get_product(*wh));
      wh.release();
      reg_product(*prod, ptypes);
      const ipr::Type* target = &T(op.a[4]);
      if (Rec* tr = rec(nref(*target)); tr != nullptr and is_udt_category(tr->exp.cat)) target = &L.int_type();
      const ipr::Forall& fa = SUT(lex->get_forall(*prod, *target));
      {
         Reading e(int(Category_code::Forall));
         e.r("first", nref(*prod)).r("second", nref(*target));
         expect_composite(e, *this);
         REG(fa, e, false);
      }
      add_type(fa);
      foralls.add_unique(&fa);
      Ref mref = nested(mk(OP_make_mapping, { op.a[0], op.a[5] + 1 }));
      if (mref == nullptr) return nullptr;
      impl::Mapping* m = mappings.v.back();
      m->typing = Optional<ipr::Type>(fa);
      if (Rec* rc = rec(nref(*m))) rc->exp.set_r("type", nref(fa));
      for (size_t i = 0; i < nparams; ++i) {
         const ipr::Identifier& pn = SUT(lex->get_identifier(word(int64_t(200 + i + size_t(uint64_t(op.a[1]) % 5) * 4), 1)));
         note_identifier(pn);
         idents.add_unique(&pn); names.add_unique(&pn);
         add_parameter(&m->inputs, m, pn, *ptypes[i]);
      }
      nested(mk(OP_set_callable_fields, { 0, last_index(mappings), op.a[3] }));          // the body (older than the mapping)
      int64_t ri = 0;
      for (size_t k = 0; k < regions.size(); ++k) if (regions.v[k] == &rg) ri = int64_t(k);
      Ref t = nested(mk(OP_make_primary_template, { exact(ri), op.a[1], last_index(foralls) }));
      if (t != nullptr) {
         nested(mk(OP_set_decl_fields, { 11, last_index(itemplates), last_index(mappings) }));
         nested(mk(OP_set_decl_fields, { 12, last_index(itemplates), exact(ri), 2 }));
      }
      return t;
   }
   default:
      return nullptr;
   }
}

}

// Operations building expressions and directives, with their expectations.
#include "world.hpp"
#include <ipr/traversal>
#include <stdexcept>
#include <type_traits>

namespace model {
using sim::SutScope;
using ipr::Category_code;
using ipr::Optional;

namespace {
   Reading obs_subst_dummy(Ref, const ObsOptions&) { return Reading{ }; }

   template<class Impl>
   void add_classic_handle(World& w, Impl* n)
   {
      if constexpr (requires { n->op_impl; })
         w.classics.push_back({ nref(*n), [n](const ipr::Expr* e) { n->op_impl = Optional<ipr::Expr>(e); } });
   }
   template<class Impl>
   void add_typed_handle(World& w, Impl* n)
   {
      if constexpr (requires { n->typing = Optional<ipr::Type>(); })
         w.typed_exprs.push_back({ nref(*n), [n](const ipr::Type* t) { n->typing = Optional<ipr::Type>(t); } });
   }

   inline void note_scope_ref(World& w, impl::Scope_ref* n) { w.scope_refs.add(static_cast<const ipr::Scope_ref*>(n)); }
   template<class Impl> inline void note_scope_ref(World&, Impl*) { }

   constexpr Category_code fold_ops[] = { Category_code::Plus, Category_code::Mul, Category_code::And, Category_code::Or, Category_code::Comma,
                                          Category_code::Bitand, Category_code::Lshift, Category_code::Minus };
   constexpr ipr::Phases phase_values[] = { ipr::Phases::Unknown, ipr::Phases::Reading, ipr::Phases::Parsing, ipr::Phases::Typing, ipr::Phases::Evaluation,
                                            ipr::Phases::Elaboration, ipr::Phases::Code_generation, ipr::Phases::Execution, ipr::Phases::All };
}

Ref World::apply_exprs(const Op& op)
{
   const int code = ((op.code % OP_COUNT) + OP_COUNT) % OP_COUNT;
   const ipr::Lexicon& L = *lex;
   switch (code) {
   // ------------------------------------------------------------------ generic families
#define X(fn, K) \
   case OP_##fn: { \
      const ipr::Expr& x = E(op.a[0]); \
      const ipr::Type* t = OptT(op.a[1]); \
      auto* n = SUT(lex->fn(x, Optional<ipr::Type>(t))); \
      REG(static_cast<const ipr::K&>(*n), expect_unary(Category_code::K, x, t, std::is_base_of_v<ipr::Classic, ipr::K>), true); \
      add_classic_handle(*this, n); add_typed_handle(*this, n); \
      add_expr(*n); \
      return nref(*n); \
   }
   OPS_UNARY_OT(X)
#undef X
#define X(fn, K) \
   case OP_##fn: { \
      const ipr::Expr& x = E(op.a[0]); \
      auto* n = SUT(lex->fn(x)); \
      REG(static_cast<const ipr::K&>(*n), expect_unary(Category_code::K, x, nullptr, std::is_base_of_v<ipr::Classic, ipr::K>), true); \
      add_classic_handle(*this, n); add_typed_handle(*this, n); \
      add_expr(*n); \
      return nref(*n); \
   }
   OPS_UNARY_E(X)
#undef X
#define X(fn, K) \
   case OP_##fn: { \
      const ipr::Expr& x = E(op.a[0]); \
      const ipr::Type& t = T(op.a[1]); \
      auto* n = SUT(lex->fn(x, t)); \
      REG(static_cast<const ipr::K&>(*n), expect_unary(Category_code::K, x, &t, std::is_base_of_v<ipr::Classic, ipr::K>), true); \
      add_typed_handle(*this, n); \
      add_expr(*n); \
      return nref(*n); \
   }
   OPS_UNARY_ET(X)
#undef X
#define X(fn, K) \
   case OP_##fn: { \
      const ipr::Expr& a = E(op.a[0]); \
      const ipr::Expr& b = E2(op.a[1], a); \
      const ipr::Type* t = OptT(op.a[2]); \
      auto* n = SUT(lex->fn(a, b, Optional<ipr::Type>(t))); \
      REG(static_cast<const ipr::K&>(*n), expect_binary(Category_code::K, a, b, t, std::is_base_of_v<ipr::Classic, ipr::K>), true); \
      add_classic_handle(*this, n); add_typed_handle(*this, n); \
      add_expr(*n); \
      note_scope_ref(*this, n); \
      return nref(*n); \
   }
   OPS_BINARY_OT(X)
#undef X
#define X(fn, K) \
   case OP_##fn: { \
      const ipr::Type& t = T(op.a[0]); \
      const ipr::Expr& x = E(op.a[1]); \
      auto* n = SUT(lex->fn(t, x)); \
      REG(static_cast<const ipr::K&>(*n), expect_binary(Category_code::K, t, x, &t, true), true); \
      add_classic_handle(*this, n); \
      add_expr(*n); \
      return nref(*n); \
   }
   OPS_CAST(X)
#undef X
#define X(fn, K) \
   case OP_##fn: { \
      const ipr::Expr& x = E(op.a[0]); \
      const ipr::Type& target = T(op.a[1]); \
      const ipr::Type& result = T(op.a[1] + 1 + int64_t(uint64_t(op.a[2]) % 5)); \
      auto* n = SUT(lex->fn(x, target, result)); \
      REG(static_cast<const ipr::K&>(*n), expect_binary(Category_code::K, x, target, &result, std::is_base_of_v<ipr::Classic, ipr::K>), true); \
      add_classic_handle(*this, n); add_typed_handle(*this, n); \
      add_expr(*n); \
      return nref(*n); \
   }
   OPS_ETT(X)
#undef X

   // ------------------------------------------------------------------ individual expression factories
   case OP_make_phantom: {
      impl::Phantom* n = SUT(lex->make_phantom());
      Reading e{ int(Category_code::Phantom) };
      e.r("type", ABSENT);
      REG(static_cast<const ipr::Phantom&>(*n), e, true);
      add_typed_handle(*this, n);
      add_expr(*n);
      return nref(*n);
   }
   case OP_make_phantom_t: {
      const ipr::Type& t = T(op.a[0]);
      const ipr::Phantom* n = SUT(lex->make_phantom(t));
      Reading e{ int(Category_code::Phantom) };
      e.r("type", nref(t));
      REG(*n, e, true);
      add_expr(*n);
      return nref(*n);
   }
   case OP_make_eclipsis: {
      const ipr::Type& t = T(op.a[0]);
      impl::Eclipsis* n = SUT(lex->make_eclipsis(t));
      Reading e{ int(Category_code::Eclipsis) };
      e.r("type", nref(t));
      REG(static_cast<const ipr::Eclipsis&>(*n), e, true);
      add_typed_handle(*this, n);
      add_expr(*n);
      return nref(*n);
   }
   case OP_make_restriction: {
      const ipr::Expr& x = E(op.a[0]);
      impl::Restriction* n = SUT(lex->make_restriction(x));
      REG(static_cast<const ipr::Restriction&>(*n), expect_unary(Category_code::Restriction, x, &L.bool_type(), false), true);
      add_expr(*n);
      return nref(*n);
   }
   case OP_make_expr_list: {
      impl::Expr_list* n = SUT(lex->make_expr_list());
      Reading e{ int(Category_code::Expr_list) };
      e.q("elements", { });
      REG(static_cast<const ipr::Expr_list&>(*n), e, true);
      xlists.add(n);
      add_expr(*n);
      return nref(*n);
   }
   case OP_expr_list_push_back: {
      if (xlists.empty()) { Op o; o.code = OP_make_expr_list; nested(o); }
      impl::Expr_list* l = xlists.pick(op.a[0]);
      const ipr::Expr& x = Eo(op.a[1], nref(*l));         // members are older than their container: the graph stays acyclic
      touching = l;
      SUT(l->push_back(&x));
      if (Rec* rc = rec(nref(*l))) rc->exp.append("elements", nref(x));
      return nref(*l);
   }
   case OP_make_id_expr_name: {
      const ipr::Name& n = N(op.a[0]);
      const ipr::Type* t = OptT(op.a[1]);
      impl::Id_expr* x = SUT(lex->make_id_expr(n, Optional<ipr::Type>(t)));
      Reading e = expect_unary(Category_code::Id_expr, n, t, false);
      e.r("resolution", nullptr);
      REG(static_cast<const ipr::Id_expr&>(*x), e, true);
      id_exprs.add(x);
      add_typed_handle(*this, x);
      add_expr(*x);
      return nref(*x);
   }
   case OP_make_id_expr_decl: {
      if (decls.empty()) return nullptr;
      const ipr::Decl& d = *decls.pick(op.a[0]);
      Ref dn = ABSENT, dt = ABSENT;
      try { dn = nref(d.name()); dt = nref(d.type()); }
      catch (const std::logic_error&) { return nullptr; }     // a declaration without name or type cannot be referred to
      impl::Id_expr* x = SUT(lex->make_id_expr(d));
      Reading e{ int(Category_code::Id_expr) };
      e.r("operand", dn).r("type", dt).r("resolution", nref(d));
      REG(static_cast<const ipr::Id_expr&>(*x), e, true);
      id_exprs.add(x);
      add_expr(*x);
      return nref(*x);
   }
   case OP_make_label: {
      const ipr::Identifier& id = Id(op.a[0]);
      const ipr::Type* t = OptT(op.a[1]);
      impl::Label* x = SUT(lex->make_label(id, Optional<ipr::Type>(t)));
      REG(static_cast<const ipr::Label&>(*x), expect_unary(Category_code::Label, id, t, false), true);
      add_typed_handle(*this, x);
      add_expr(*x);
      return nref(*x);
   }
   case OP_make_enclosure: {
      const auto delim = ipr::Delimiter(uint64_t(op.a[0]) % 5);
      const ipr::Expr& x = E(op.a[1]);
      const ipr::Type* t = OptT(op.a[2]);
      impl::Enclosure* n = SUT(lex->make_enclosure(delim, x, Optional<ipr::Type>(t)));
      Reading e = expect_unary(Category_code::Enclosure, x, t, false);
      e.s("delimiters", int64_t(delim));
      REG(static_cast<const ipr::Enclosure&>(*n), e, true);
      enclosures.add(n);
      add_typed_handle(*this, n);
      add_expr(*n);
      return nref(*n);
   }
   case OP_make_construction: {
      if (enclosures.empty()) { Op o; o.code = OP_make_enclosure; o.a[0] = 1; o.a[1] = op.a[1]; nested(o); }
      const ipr::Type& t = T(op.a[0]);
      const ipr::Enclosure& enc = *enclosures.pick(op.a[1]);
      impl::Construction* n = SUT(lex->make_construction(t, enc));
      REG(static_cast<const ipr::Construction&>(*n), expect_unary(Category_code::Construction, enc, &t, true), true);
      constructions.add(n);
      add_classic_handle(*this, n);
      add_expr(*n);
      return nref(*n);
   }
   case OP_make_rewrite: {
      const ipr::Expr& a = E(op.a[0]);
      const ipr::Expr& b = E2(op.a[1], a);
      impl::Rewrite* n = SUT(lex->make_rewrite(a, b));
      Reading e{ int(Category_code::Rewrite) };
      e.r("first", nref(a)).r("second", nref(b));
      REG(static_cast<const ipr::Rewrite&>(*n), e, true);
      borrow_type(nref(*n), b);
      add_expr(*n);
      return nref(*n);
   }
   case OP_make_call: {
      if (xlists.empty()) { Op o; o.code = OP_make_expr_list; nested(o); }
      const ipr::Expr& f = E(op.a[0]);
      const ipr::Expr_list& args = *xlists.pick(op.a[1]);
      const ipr::Type* t = OptT(op.a[2]);
      impl::Call* n = SUT(lex->make_call(f, args, Optional<ipr::Type>(t)));
      REG(static_cast<const ipr::Call&>(*n), expect_binary(Category_code::Call, f, args, t, true), true);
      add_classic_handle(*this, n); add_typed_handle(*this, n);
      add_expr(*n);
      return nref(*n);
   }
   case OP_make_qualification: {
      const ipr::Expr& x = E(op.a[0]);
      const ipr::Qualifiers q = quals(op.a[1]);
      const ipr::Type& t = T(op.a[2]);
      impl::Qualification* n = SUT(lex->make_qualification(x, q, t));
      Reading e{ int(Category_code::Qualification) };
      e.r("first", nref(x)).s("second", int64_t(q)).r("type", nref(t));
      REG(static_cast<const ipr::Qualification&>(*n), e, true);
      add_typed_handle(*this, n);
      add_expr(*n);
      return nref(*n);
   }
   case OP_make_binary_fold: {
      const Category_code fo = fold_ops[uint64_t(op.a[0]) % 8];
      const ipr::Expr& a = E(op.a[1]);
      const ipr::Expr& b = E2(op.a[2], a);
      const ipr::Type* t = OptT(op.a[3]);
      impl::Binary_fold* n = SUT(lex->make_binary_fold(fo, a, b, Optional<ipr::Type>(t)));
      Reading e = expect_binary(Category_code::Binary_fold, a, b, t, true);
      e.s("operation", int64_t(fo));
      REG(static_cast<const ipr::Binary_fold&>(*n), e, true);
      add_classic_handle(*this, n); add_typed_handle(*this, n);
      add_expr(*n);
      return nref(*n);
   }
   case OP_make_where_region: {
      const ipr::Region& pr = AnyR(op.a[0]);
      impl::Where* n = SUT(lex->make_where(pr));
      Reading e{ int(Category_code::Where) };
      e.r("first", ABSENT).r("second", nref(n->region.scope)).r("type", ABSENT);
      REG(static_cast<const ipr::Where&>(*n), e, true);
      reg_region(n->region, &pr, nullptr);
      wheres.add(n);
      add_expr(*n);
      return nref(*n);
   }
   case OP_make_where_expr: {
      const ipr::Expr& a = E(op.a[0]);
      const ipr::Expr& b = E2(op.a[1], a);
      impl::Where_no_decl* n = SUT(lex->make_where(a, b));
      Reading e{ int(Category_code::Where) };
      e.r("first", nref(a)).r("second", nref(b));
      REG(static_cast<const ipr::Where&>(*n), e, true);
      borrow_type(nref(*n), a);
      add_expr(*n);
      return nref(*n);
   }
   case OP_make_instantiation: {
      if (substs.empty()) { Op o; o.code = OP_make_general_substitution; nested(o); }
      const ipr::Expr& x = E(op.a[0]);
      const ipr::Substitution& s = *substs.pick(op.a[1]);
      impl::Instantiation* n = SUT(lex->make_instantiation(x, s));
      Reading e{ int(Category_code::Instantiation) };
      e.r("pattern", nref(x)).r("substitution", &s).r("instance", nullptr).r("type", ABSENT);
      REG(static_cast<const ipr::Instantiation&>(*n), e, true);
      insts.add(n);
      add_expr(*n);
      return nref(*n);
   }
   case OP_make_new: {
      if (constructions.empty()) { Op o; o.code = OP_make_construction; o.a[0] = op.a[1]; o.a[1] = op.a[2]; nested(o); }
      const ipr::Expr_list* placement = (uint64_t(op.a[0]) % 3 == 0 or xlists.empty()) ? nullptr : xlists.pick(op.a[0] / 3);
      const ipr::Construction& c = *constructions.pick(op.a[1]);
      const ipr::Type* t = OptT(op.a[2]);
      impl::New* n = SUT(lex->make_new(Optional<ipr::Expr_list>(placement), c, Optional<ipr::Type>(t)));
      Reading e{ int(Category_code::New) };
      e.r("first", placement ? nref(*placement) : nullptr).r("second", nref(c)).r("type", t ? nref(*t) : ABSENT).s("global_requested", 0).r("implementation", nullptr);
      REG(static_cast<const ipr::New&>(*n), e, true);
      news.add(n);
      add_classic_handle(*this, n); add_typed_handle(*this, n);
      add_expr(*n);
      return nref(*n);
   }
   case OP_make_conditional: {
      const ipr::Expr& a = E(op.a[0]);
      const ipr::Expr& b = E2(op.a[1], a);
      const ipr::Expr& c = E2(op.a[2], b);
      const ipr::Type* t = OptT(op.a[3]);
      impl::Conditional* n = SUT(lex->make_conditional(a, b, c, Optional<ipr::Type>(t)));
      Reading e{ int(Category_code::Conditional) };
      e.r("first", nref(a)).r("second", nref(b)).r("third", nref(c)).r("type", t ? nref(*t) : ABSENT).r("implementation", nullptr);
      REG(static_cast<const ipr::Conditional&>(*n), e, true);
      add_classic_handle(*this, n); add_typed_handle(*this, n);
      add_expr(*n);
      return nref(*n);
   }
   case OP_make_mapping:
   case OP_lexicon_make_mapping: {
      const ipr::Region& pr = AnyR(op.a[0]);
      const auto level = ipr::Mapping_level(code == OP_make_mapping ? uint64_t(op.a[1]) % 5 : 0);
      impl::Mapping* n = code == OP_make_mapping ? SUT(static_cast<impl::expr_factory*>(lex)->make_mapping(pr, level)) : SUT(lex->make_mapping(pr));
      Reading e{ int(Category_code::Mapping) };
      e.r("parameters", nref(n->inputs)).r("result", ABSENT).r("type", ABSENT);
      REG(static_cast<const ipr::Mapping&>(*n), e, true);
      Reading pe{ int(Category_code::Parameter_list) };
      pe.r("region", nref(n->inputs.parms)).s("level", int64_t(level)).q("elements", { });
      REG(static_cast<const ipr::Parameter_list&>(n->inputs), pe, true);
      note_region(n->inputs.parms, &pr, nref(*n));
      HomoModel h; h.kind = H_params; h.scope = &n->inputs.parms.scope; h.region = &n->inputs.parms; h.owner_node = &n->inputs; h.level = int64_t(level);
      homos.push_back(h);
      print_parent[nref(static_cast<const ipr::Parameter_list&>(n->inputs))] = nref(*n);
      plists.add(&n->inputs);
      mappings.add(n);
      add_typed_handle(*this, n);
      add_expr(*n);
      return nref(*n);
   }
   case OP_make_lambda: {
      const ipr::Region& pr = AnyR(op.a[0]);
      const auto level = ipr::Mapping_level(uint64_t(op.a[1]) % 5);
      impl::Lambda* n = SUT(lex->make_lambda(pr, level));
      Reading e{ int(Category_code::Lambda) };
      e.r("parameters", nref(n->inputs)).r("result", ABSENT).r("type", ABSENT).r("target", nullptr).r("requirement", nullptr)
       .r("eh_specification", nullptr).s("specifiers", 0).q("attributes", { }).q("captures", { });
      REG(static_cast<const ipr::Lambda&>(*n), e, true);
      Reading pe{ int(Category_code::Parameter_list) };
      pe.r("region", nref(n->inputs.parms)).s("level", int64_t(level)).q("elements", { });
      REG(static_cast<const ipr::Parameter_list&>(n->inputs), pe, true);
      note_region(n->inputs.parms, &pr, nref(*n));
      HomoModel h; h.kind = H_params; h.scope = &n->inputs.parms.scope; h.region = &n->inputs.parms; h.owner_node = &n->inputs; h.level = int64_t(level);
      homos.push_back(h);
      plists.add(&n->inputs);
      lambdas.add(n);
      add_expr(*n);
      return nref(*n);
   }
   case OP_make_requires: {
      const ipr::Region& pr = AnyR(op.a[0]);
      const auto level = ipr::Mapping_level(uint64_t(op.a[1]) % 5);
      impl::Requires* n = SUT(lex->make_requires(pr, level));
      Reading e{ int(Category_code::Requires) };
      e.r("parameters", nref(n->formals)).r("type", nref(L.bool_type())).q("body", { });
      REG(static_cast<const ipr::Requires&>(*n), e, true);
      Reading pe{ int(Category_code::Parameter_list) };
      pe.r("region", nref(n->formals.parms)).s("level", int64_t(level)).q("elements", { });
      REG(static_cast<const ipr::Parameter_list&>(n->formals), pe, true);
      note_region(n->formals.parms, &pr, nullptr);
      HomoModel h; h.kind = H_params; h.scope = &n->formals.parms.scope; h.region = &n->formals.parms; h.owner_node = &n->formals; h.level = int64_t(level);
      homos.push_back(h);
      plists.add(&n->formals);
      requireses.add(n);
      add_expr(*n);
      return nref(*n);
   }
   case OP_make_elementary_substitution: {
      if (params.empty()) return nullptr;
      const ipr::Parameter& p = *params.pick(op.a[0]);
      const ipr::Expr& v = E(op.a[1]);
      impl::Elementary_substitution* s = SUT(lex->make_elementary_substitution(p, v));
      if (recs.find(s) != recs.end()) { fail(prop + "/generative-aliased/make_elementary_substitution", "a fresh substitution aliases a live object"); return s; }
      substs.add(static_cast<const ipr::Substitution*>(s));
      elem_subst_models[static_cast<const ipr::Substitution*>(s)] = { &p, &v };
      return static_cast<const ipr::Substitution*>(s);
   }
   case OP_make_general_substitution: {
      impl::General_substitution* s = SUT(lex->make_general_substitution());
      gen_substs.add(s);
      substs.add(static_cast<const ipr::Substitution*>(s));
      subst_models[s];
      return static_cast<const ipr::Substitution*>(s);
   }
   case OP_general_subst: {
      if (gen_substs.empty() or params.empty()) return nullptr;
      impl::General_substitution* s = gen_substs.pick(op.a[0]);
      const ipr::Parameter& p = *params.pick(op.a[1]);
      const ipr::Expr& v = E(op.a[2]);
      touching = s;
      impl::General_substitution& r = SUT(s->subst(p, v));
      if (&r != s) fail(prop + "/creation/general_subst", "subst() does not return the substitution it was applied to");
      subst_models[s][&p] = &v;
      return static_cast<const ipr::Substitution*>(s);
   }
   case OP_make_asm: {
      const ipr::String& s = S(op.a[0]);
      impl::Phased_evaluation* n = SUT(lex->make_asm(s));
      Reading e{ int(Category_code::Phased_evaluation) };
      e.s("phases", int64_t(ipr::Phases::Code_generation)).r("type", nref(L.void_type()));
      REG(static_cast<const ipr::Phased_evaluation&>(*n), e, true);
      const ipr::Expr& inner = n->expression();
      Reading ie{ int(Category_code::Asm) };
      ie.r("operand", nref(s)).r("type", nref(L.void_type()));
      REG(inner, ie, true);
      borrow_type(nref(*n), inner);
      add_expr(*n);
      add_expr(inner);
      return nref(*n);
   }
   case OP_make_static_assert: {
      const ipr::Expr& x = E(op.a[0]);
      const ipr::String* msg = uint64_t(op.a[1]) % 3 == 0 ? nullptr : &S(op.a[1] / 3);
      impl::Phased_evaluation* n = SUT(lex->make_static_assert(x, Optional<ipr::String>(msg)));
      Reading e{ int(Category_code::Phased_evaluation) };
      e.s("phases", int64_t(ipr::Phases::Elaboration)).r("type", nref(L.bool_type()));
      REG(static_cast<const ipr::Phased_evaluation&>(*n), e, true);
      const ipr::Expr& inner = n->expression();
      Reading ie{ int(Category_code::Static_assert) };
      ie.r("first", nref(x)).r("second", msg ? nref(*msg) : nullptr).r("type", nref(L.bool_type()));
      REG(inner, ie, true);
      borrow_type(nref(*n), inner);
      add_expr(*n);
      add_expr(inner);
      return nref(*n);
   }
   // ------------------------------------------------------------------ directives
   case OP_make_specifiers_spread: {
      impl::Specifiers_spread* n = SUT(lex->make_specifiers_spread());
      Reading e{ int(Category_code::Specifiers_spread) };
      e.s("phases", int64_t(ipr::Phases::Elaboration)).r("type", ABSENT).s("specifiers", 0).q("targets", { });
      REG(static_cast<const ipr::Specifiers_spread&>(*n), e, true);
      spreads.add(n);
      add_typed_handle(*this, n);
      add_expr(*n);
      return nref(*n);
   }
   case OP_make_structured_binding: {
      impl::Structured_binding* n = SUT(lex->make_structured_binding());
      Reading e{ int(Category_code::Structured_binding) };
      e.s("phases", int64_t(ipr::Phases::Elaboration)).r("type", ABSENT).s("specifiers", 0).s("mode", 0).q("names", { }).r("initializer", ABSENT).q("bindings", { });
      REG(static_cast<const ipr::Structured_binding&>(*n), e, true);
      sbindings.add(n);
      add_typed_handle(*this, n);
      add_expr(*n);
      return nref(*n);
   }
   case OP_make_using_declaration_single: {
      if (scope_refs.empty()) { Op o; o.code = OP_make_scope_ref; o.a[0] = op.a[0]; o.a[1] = op.a[0] + 1; nested(o); }
      const ipr::Scope_ref& sr = *scope_refs.pick(op.a[0]);
      const auto mode = ipr::Using_declaration::Designator::Mode(uint64_t(op.a[1]) % 3);
      impl::single_using_declaration* n = SUT(lex->make_using_declaration(sr, mode));
      Reading e{ int(Category_code::Using_declaration) };
      e.s("phases", int64_t(ipr::Phases::Elaboration)).r("type", ABSENT);
      e.q("designators", { nref(sr), reinterpret_cast<Ref>(uintptr_t(0x100 + int(mode))) });
      REG(static_cast<const ipr::Using_declaration&>(*n), e, true);
      add_typed_handle(*this, n);
      add_expr(*n);
      return nref(*n);
   }
   case OP_make_using_declaration: {
      impl::Using_declaration* n = SUT(lex->make_using_declaration());
      Reading e{ int(Category_code::Using_declaration) };
      e.s("phases", int64_t(ipr::Phases::Elaboration)).r("type", ABSENT).q("designators", { });
      REG(static_cast<const ipr::Using_declaration&>(*n), e, true);
      usings.add(n);
      add_typed_handle(*this, n);
      add_expr(*n);
      return nref(*n);
   }
   case OP_make_using_directive: {
      const ipr::Scope& sc = R(op.a[0]).scope;
      const ipr::Type& t = T(op.a[1]);
      impl::Using_directive* n = SUT(lex->make_using_directive(sc, t));
      Reading e{ int(Category_code::Using_directive) };
      e.s("phases", int64_t(ipr::Phases::Elaboration)).r("type", nref(t)).r("nominated_scope", nref(sc));
      REG(static_cast<const ipr::Using_directive&>(*n), e, true);
      add_typed_handle(*this, n);
      add_expr(*n);
      return nref(*n);
   }
   case OP_make_phased_evaluation: {
      const ipr::Expr& x = E(op.a[0]);
      const ipr::Phases ph = phase_values[uint64_t(op.a[1]) % 9];
      impl::Phased_evaluation* n = SUT(lex->make_phased_evaluation(x, ph));
      Reading e{ int(Category_code::Phased_evaluation) };
      e.s("phases", int64_t(ph)).r("expression", nref(x));
      REG(static_cast<const ipr::Phased_evaluation&>(*n), e, true);
      borrow_type(nref(*n), x);
      add_expr(*n);
      return nref(*n);
   }
   case OP_make_pragma: {
      impl::Pragma* n = SUT(lex->make_pragma());
      Reading e{ int(Category_code::Pragma) };
      e.s("phases", int64_t(ipr::Phases::All)).r("type", ABSENT).q("operand", { });
      REG(static_cast<const ipr::Pragma&>(*n), e, true);
      pragmas.add(n);
      add_typed_handle(*this, n);
      add_expr(*n);
      return nref(*n);
   }
   default:
      return nullptr;
   }
}

}

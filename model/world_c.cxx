// Operations building statements, regions and declarations, with their expectations.
#include "world.hpp"
#include <ipr/traversal>
#include <stdexcept>

namespace model {
using sim::SutScope;
using ipr::Category_code;
using ipr::Optional;

namespace {
   template<class Impl>
   void add_stmt_handle(World& w, Impl* n)
   {
      w.stmt_handles.push_back({ nref(*n), [n, &w](int which, int64_t a, int64_t b, int64_t c) {
         switch (which % 3) {
         case 0:
            n->src_locus.line = ipr::Line_number(uint32_t(a)); n->src_locus.column = ipr::Column_number(uint32_t(b)); n->src_locus.file = ipr::File_index(uint32_t(c));
            if (Rec* rc = w.rec(nref(*n))) { rc->exp.set_s("source_location.line", uint32_t(a)); rc->exp.set_s("source_location.column", uint32_t(b)); rc->exp.set_s("source_location.file", uint32_t(c)); }
            break;
         case 1:
            n->unit_locus.line = ipr::Line_number(uint32_t(a)); n->unit_locus.column = ipr::Column_number(uint32_t(b)); n->unit_locus.unit = ipr::Unit_index(uint32_t(c));
            if (Rec* rc = w.rec(nref(*n))) { rc->exp.set_s("unit_location.line", uint32_t(a)); rc->exp.set_s("unit_location.column", uint32_t(b)); rc->exp.set_s("unit_location.unit", uint32_t(c)); }
            break;
         default:
            if (not w.attributes.empty()) {
               const ipr::Attribute* at = w.attributes.pick(a);
               SUT(n->attrs.push_back(at));
               if (Rec* rc = w.rec(nref(*n))) rc->exp.append("attributes", at);
            }
            break;
         }
      } });
   }

   Ref guarded_name(const ipr::Type& t)
   {
      try { return nref(t.name()); }
      catch (const std::logic_error&) { return ABSENT; }
   }
}

Ref World::apply_stmts_decls(const Op& op)
{
   const int code = ((op.code % OP_COUNT) + OP_COUNT) % OP_COUNT;
   const ipr::Lexicon& L = *lex;
   switch (code) {
   // ------------------------------------------------------------------ statements
   case OP_make_break: {
      impl::Break* n = SUT(lex->make_break());
      Reading e{ int(Category_code::Break) };
      expect_stmt_defaults(e);
      e.r("from", ABSENT).r("type", nref(L.void_type()));
      REG(static_cast<const ipr::Break&>(*n), e, true);
      breaks.add(n); stmts.add(n); add_stmt_handle(*this, n);
      return nref(*n);
   }
   case OP_make_continue: {
      impl::Continue* n = SUT(lex->make_continue());
      Reading e{ int(Category_code::Continue) };
      expect_stmt_defaults(e);
      e.r("iteration", ABSENT).r("type", nref(L.void_type()));
      REG(static_cast<const ipr::Continue&>(*n), e, true);
      continues.add(n); stmts.add(n); add_stmt_handle(*this, n);
      return nref(*n);
   }
   case OP_make_block: {
      const ipr::Region& pr = AnyR(op.a[0]);
      const ipr::Type* t = OptT(op.a[1]);
      impl::Block* n = SUT(lex->make_block(pr, Optional<ipr::Type>(t)));
      Reading e{ int(Category_code::Block) };
      expect_stmt_defaults(e);
      e.r("type", t ? nref(*t) : ABSENT).r("region", nref(n->lexical_region)).q("body", { }).q("handlers", { });
      REG(static_cast<const ipr::Block&>(*n), e, true);
      reg_region(n->lexical_region, &pr, nref(*n));
      blocks.add(n); stmts.add(n); add_stmt_handle(*this, n);
      return nref(*n);
   }
   case OP_make_ctor_body: {
      if (xlists.empty()) { Op o; o.code = OP_make_expr_list; nested(o); }
      if (blocks.empty()) { Op o; o.code = OP_make_block; o.a[0] = op.a[1]; nested(o); }
      const ipr::Expr_list& inits = *xlists.pick(op.a[0]);
      const ipr::Block& b = *blocks.pick(op.a[1]);
      impl::Ctor_body* n = SUT(lex->make_ctor_body(inits, b));
      Reading e{ int(Category_code::Ctor_body) };
      expect_stmt_defaults(e);
      e.r("first", nref(inits)).r("second", nref(b)).r("type", ABSENT);
      REG(static_cast<const ipr::Ctor_body&>(*n), e, true);
      stmts.add(n); add_stmt_handle(*this, n);
      return nref(*n);
   }
   case OP_make_expr_stmt: {
      const ipr::Expr& x = E(op.a[0]);
      impl::Expr_stmt* n = SUT(lex->make_expr_stmt(x));
      Reading e{ int(Category_code::Expr_stmt) };
      expect_stmt_defaults(e);
      e.r("operand", nref(x));
      REG(static_cast<const ipr::Expr_stmt&>(*n), e, true);
      borrow_type(nref(*n), x);
      stmts.add(n); add_stmt_handle(*this, n);
      return nref(*n);
   }
   case OP_make_goto: {
      const ipr::Expr& x = E(op.a[0]);
      impl::Goto* n = SUT(lex->make_goto(x));
      Reading e{ int(Category_code::Goto) };
      expect_stmt_defaults(e);
      e.r("operand", nref(x));
      REG(static_cast<const ipr::Goto&>(*n), e, true);
      borrow_type(nref(*n), x);
      stmts.add(n); add_stmt_handle(*this, n);
      return nref(*n);
   }
   case OP_make_return: {
      const ipr::Expr& x = E(op.a[0]);
      impl::Return* n = SUT(lex->make_return(x));
      Reading e{ int(Category_code::Return) };
      expect_stmt_defaults(e);
      e.r("operand", nref(x)).r("type", ABSENT);
      REG(static_cast<const ipr::Return&>(*n), e, true);
      stmts.add(n); add_stmt_handle(*this, n);
      return nref(*n);
   }
   case OP_make_do: {
      impl::Do* n = SUT(lex->make_do());
      Reading e{ int(Category_code::Do) };
      expect_stmt_defaults(e);
      e.r("first", ABSENT).r("second", ABSENT).r("type", ABSENT);
      REG(static_cast<const ipr::Do&>(*n), e, true);
      dos.add(n); stmts.add(n); add_stmt_handle(*this, n);
      return nref(*n);
   }
   case OP_make_while: {
      impl::While* n = SUT(lex->make_while());
      Reading e{ int(Category_code::While) };
      expect_stmt_defaults(e);
      e.r("first", ABSENT).r("second", ABSENT).r("type", ABSENT);
      REG(static_cast<const ipr::While&>(*n), e, true);
      whiles.add(n); stmts.add(n); add_stmt_handle(*this, n);
      return nref(*n);
   }
   case OP_make_switch: {
      impl::Switch* n = SUT(lex->make_switch());
      Reading e{ int(Category_code::Switch) };
      expect_stmt_defaults(e);
      e.r("first", ABSENT).r("second", ABSENT).r("type", ABSENT);
      REG(static_cast<const ipr::Switch&>(*n), e, true);
      switches.add(n); stmts.add(n); add_stmt_handle(*this, n);
      return nref(*n);
   }
   case OP_make_if2:
   case OP_make_if3: {
      const ipr::Expr& c = E(op.a[0]);
      const ipr::Expr& s = E2(op.a[1], c);
      const ipr::Expr* f = code == OP_make_if3 ? &E2(op.a[2], s) : nullptr;
      impl::If* n = f ? SUT(lex->make_if(c, s, *f)) : SUT(lex->make_if(c, s));
      Reading e{ int(Category_code::If) };
      expect_stmt_defaults(e);
      e.r("first", nref(c)).r("second", nref(s)).r("third", f ? nref(*f) : nullptr).r("type", ABSENT);
      REG(static_cast<const ipr::If&>(*n), e, true);
      ifs.add(n); stmts.add(n); add_stmt_handle(*this, n);
      return nref(*n);
   }
   case OP_make_labeled_stmt: {
      const ipr::Expr& l = E(op.a[0]);
      const ipr::Expr& s = E2(op.a[1], l);
      impl::Labeled_stmt* n = SUT(lex->make_labeled_stmt(l, s));
      Reading e{ int(Category_code::Labeled_stmt) };
      expect_stmt_defaults(e);
      e.r("first", nref(l)).r("second", nref(s));
      REG(static_cast<const ipr::Labeled_stmt&>(*n), e, true);
      borrow_type(nref(*n), s);
      stmts.add(n); add_stmt_handle(*this, n);
      return nref(*n);
   }
   case OP_make_for: {
      impl::For* n = SUT(lex->make_for());
      Reading e{ int(Category_code::For) };
      expect_stmt_defaults(e);
      e.r("initializer", ABSENT).r("condition", ABSENT).r("increment", ABSENT).r("body", ABSENT).r("type", ABSENT);
      REG(static_cast<const ipr::For&>(*n), e, true);
      fors.add(n); stmts.add(n); add_stmt_handle(*this, n);
      return nref(*n);
   }
   case OP_make_for_in: {
      impl::For_in* n = SUT(lex->make_for_in());
      Reading e{ int(Category_code::For_in) };
      expect_stmt_defaults(e);
      e.r("variable", ABSENT).r("sequence", ABSENT).r("body", ABSENT).r("type", ABSENT);
      REG(static_cast<const ipr::For_in&>(*n), e, true);
      for_ins.add(n); stmts.add(n); add_stmt_handle(*this, n);
      return nref(*n);
   }
   case OP_block_add_stmt: {
      if (blocks.empty()) { Op o; o.code = OP_make_block; o.a[0] = op.a[0]; nested(o); }
      impl::Block* b = blocks.pick(op.a[0]);
      const ipr::Expr& x = Eo(op.a[1], nref(*b));          // members are older than their container: the graph stays acyclic
      touching = b;
      SUT(b->add_stmt(x));
      if (Rec* rc = rec(nref(*b))) rc->exp.append("body", nref(x));
      if (Rec* rc = rec(nref(b->lexical_region))) rc->exp.append("body", nref(x));
      return nref(*b);
   }
   case OP_block_new_handler: {
      if (blocks.empty()) { Op o; o.code = OP_make_block; o.a[0] = op.a[0]; nested(o); }
      impl::Block* b = blocks.pick(op.a[0]);
      // the exception declaration is printed in place by the block: its name and type are older than the block
      const ipr::Name& nm = No(op.a[1], nref(*b));
      const ipr::Type& t = To(op.a[2], nref(*b));
      touching = b;
      impl::Handler* h = SUT(b->new_handler(nm, t));
      const ipr::Handler& hi = *h;
      const ipr::Region& guarded_parent = b->lexical_region.enclosing();       // the region that encloses the guarded block
      Reading e{ int(Category_code::Handler) };
      expect_stmt_defaults(e);
      e.r("type", ABSENT);
      REG(hi, e, true);
      // the exception parameter
      const ipr::EH_parameter& ex = hi.exception();
      Reading pe{ int(Category_code::EH_parameter) };
      expect_stmt_defaults(pe);
      pe.r("type", nref(t)).r("name", nref(nm)).s("specifiers", 0).r("initializer", nullptr).r("master", nref(ex)).r("linkage", nref(L.cxx_linkage().language().what()));
      pe.q("decl_set", { nref(ex) });
      REG(ex, pe, true);
      // the handler's body: a block without handlers of its own
      const ipr::Block& hb = hi.body();
      Reading be{ int(Category_code::Block) };
      expect_stmt_defaults(be);
      be.r("type", ABSENT).q("body", { }).q("handlers", { });
      REG(hb, be, true);
      if (Rec* rc = rec(nref(hi))) { rc->exp.set_r("exception", nref(ex)); rc->exp.set_r("body", nref(hb)); }     // they stay the handler's parts
      // regions: body enclosed by a region binding exactly the exception parameter, itself enclosed by the region enclosing the guarded block
      const ipr::Region& body_region = hb.region();
      const ipr::Region* eh_region = nullptr;
      try { eh_region = &body_region.enclosing(); }
      catch (const std::logic_error&) { }
      if (eh_region == nullptr) fail(prop + "/handler-region", "the body of a handler has no enclosing region");
      else {
         note_region(*eh_region, &guarded_parent, ABSENT);
         note_region(body_region, eh_region, ABSENT);                        // owner of the body region: the statement does not say
         HomoModel hm; hm.kind = H_eh; hm.scope = &eh_region->bindings(); hm.region = eh_region; hm.owner_node = &hi;
         hm.decls.push_back({ &ex, &nm, &t, code });
         homos.push_back(hm);
      }
      note_scope(h->body().lexical_region);
      if (Rec* rc = rec(nref(*b))) rc->exp.append("handlers", nref(hi));
      print_parent[nref(hi)] = nref(*b);
      print_parent[nref(ex)] = nref(*b);
      handlers.add(h); stmts.add(&hi); decls.add(&ex); add_stmt_handle(*this, h);
      return nref(hi);
   }
   case OP_handler_add_stmt: {
      if (handlers.empty()) return nullptr;
      impl::Handler* h = handlers.pick(op.a[0]);
      // the handler is printed in place by its (older) block: its statements must be older than that block
      const ipr::Expr& x = Eo(op.a[1], bound_for(nref(static_cast<const ipr::Handler&>(*h))));
      touching = h;
      SUT(h->body().add_stmt(x));
      if (Rec* rc = rec(nref(static_cast<const ipr::Block&>(h->body())))) rc->exp.append("body", nref(x));
      return nref(*h);
   }
   // ------------------------------------------------------------------ regions
   case OP_make_subregion: {
      impl::Region& pr = R(op.a[0]);
      impl::Region* r = SUT(pr.make_subregion());
      reg_region(*r, &pr, nullptr);
      return nref(*r);
   }
   // ------------------------------------------------------------------ declarations in heterogeneous scopes
   case OP_make_alias: case OP_make_var: case OP_make_field: case OP_make_bitfield: case OP_make_typedecl:
   case OP_make_fundecl: case OP_make_primary_template: case OP_make_secondary_template: {
      impl::Region& reg_ = R(op.a[0]);
      if (region_sealed(reg_)) return nullptr;               // the body is printed in place somewhere: it takes no further members
      impl::Scope& sc = reg_.scope;
      ScopeModel& sm = scopes[&sc];
      if (sm.scope == nullptr) { sm.scope = &sc; sm.region = &reg_; }
      const ipr::Name& nm = N(op.a[1]);
      int kind = code;
      // choose the type according to the kind
      const ipr::Type* ty;
      const ipr::Expr* alias_init = nullptr;
      if (kind == OP_make_fundecl) {
         if (functions.empty()) { Op o; o.code = OP_get_function2; o.a[0] = op.a[2]; o.a[1] = op.a[3]; nested(o); }
         ty = functions.pick(op.a[2]);
      } else if (kind == OP_make_primary_template or kind == OP_make_secondary_template) {
         if (foralls.empty()) { Op o; o.code = OP_get_forall; o.a[0] = op.a[2]; o.a[1] = op.a[3]; nested(o); }
         ty = foralls.pick(op.a[2]);
      } else if (kind == OP_make_alias) {
         alias_init = &T(op.a[2]);                           // an alias for a type (typedef-like); its type is the initializer's type
         ty = &alias_init->type();
      } else
         ty = &T(op.a[2]);
      // a (scope, name, type) triple is only ever declared through one declaration kind
      for (auto& de : sm.decls)
         if (de.name == &nm and de.type == ty and de.kind != kind) {
            // the triple belongs to another kind: this operation becomes a redeclaration through that kind when the type fits, otherwise it is dropped
            return nullptr;
         }
      touching = &sc;
      const ipr::Decl* made = nullptr;
      Reading e;
      std::vector<Ref> set;
      const ipr::Decl* first = nullptr;
      for (auto& de : sm.decls) if (de.name == &nm and de.type == ty) { if (first == nullptr) first = de.decl; set.push_back(nref(*de.decl)); }
      auto common = [&](Category_code c, const ipr::Decl& d) {
         e = Reading{ int(c) };
         expect_stmt_defaults(e);
         e.r("type", nref(*ty)).s("specifiers", 0).r("name", nref(nm)).r("home_region", ABSENT).r("lexical_region", ABSENT);
         e.r("linkage", ABSENT);
         (void) d;       // master() and decl_set() are C07's subject: they are judged by the scope oracle, not by the creation reading
      };
      switch (kind) {
      case OP_make_alias: {
         impl::Alias* d = SUT(sc.make_alias(nm, *alias_init));
         common(Category_code::Alias, *d);
         e.r("initializer", nref(*alias_init));
         made = d; ialiases.add(d); add_stmt_handle(*this, d);
         break;
      }
      case OP_make_var: {
         impl::Var* d = SUT(sc.make_var(nm, *ty));
         common(Category_code::Var, *d);
         e.r("initializer", nullptr).r("definition", nullptr);
         made = d; ivars.add(d); vars.add(d); add_stmt_handle(*this, d);
         break;
      }
      case OP_make_field: {
         impl::Field* d = SUT(sc.make_field(nm, *ty));
         common(Category_code::Field, *d);
         e.r("initializer", nullptr);
         made = d; ifields.add(d); add_stmt_handle(*this, d);
         break;
      }
      case OP_make_bitfield: {
         impl::Bitfield* d = SUT(sc.make_bitfield(nm, *ty));
         common(Category_code::Bitfield, *d);
         e.r("initializer", nullptr).r("precision", ABSENT);
         made = d; ibitfields.add(d); add_stmt_handle(*this, d);
         break;
      }
      case OP_make_typedecl: {
         impl::Typedecl* d = SUT(sc.make_typedecl(nm, *ty));
         common(Category_code::Typedecl, *d);
         e.r("initializer", nullptr).r("definition", nullptr);
         made = d; itypedecls.add(d); add_stmt_handle(*this, d);
         break;
      }
      case OP_make_fundecl: {
         impl::Fundecl* d = SUT(sc.make_fundecl(nm, *static_cast<const ipr::Function*>(ty)));
         common(Category_code::Fundecl, *d);
         e.r("initializer", nullptr).r("definition", nullptr).r("mapping", nullptr).r("parameters", ABSENT);
         made = d; ifundecls.add(d); add_stmt_handle(*this, d);
         break;
      }
      default: {
         impl::Template* d = kind == OP_make_primary_template ? SUT(sc.make_primary_template(nm, *static_cast<const ipr::Forall*>(ty)))
                                                               : SUT(sc.make_secondary_template(nm, *static_cast<const ipr::Forall*>(ty)));
         common(Category_code::Template, *d);
         e.r("initializer", ABSENT).r("definition", nullptr).r("mapping", ABSENT).q("specializations", { });
         // a first primary declaration is its own primary template; what a redeclaration reports hinges on
         // declaration-set grouping, which is C07's subject
         if (kind == OP_make_primary_template and first == nullptr) e.r("primary_template", nref(*d));
         else if (kind == OP_make_secondary_template and first == nullptr) e.r("primary_template", ABSENT);
         made = d; itemplates.add(d); templates.add(d); add_stmt_handle(*this, d);
         break;
      }
      }
      // the model learns about the declaration before it is observed, so that redeclaration bookkeeping is complete
      sm.decls.push_back({ made, &nm, ty, kind });
      if (Rec* rc = rec(nref(sc))) rc->exp.append("elements", nref(*made));
      if (first != nullptr) {
         // a redeclaration shares what its master declaration knows
         if (Rec* fr = rec(nref(*first)))
            for (const char* key : { "linkage", "home_region", "definition" })
               if (const Slot* sl = fr->exp.find(key); sl != nullptr and e.find(key) != nullptr) e.set_r(key, sl->ref);
      }
      REG(*made, e, true);
      decls.add(made);
      return nref(*made);
   }
   // ------------------------------------------------------------------ members of homogeneous scopes
   case OP_enum_add_member: {
      if (enums.empty()) { Op o; o.code = OP_make_enum; o.a[0] = op.a[0]; nested(o); }
      impl::Enum* en = enums.pick(op.a[0]);
      const ipr::Name& nm = N(op.a[1]);
      HomoModel* hm = nullptr;
      for (auto& h : homos) if (h.scope == &en->body.scope) hm = &h;
      if (hm == nullptr) return nullptr;
      for (auto& de : hm->decls) if (de.name == &nm) return nullptr;          // names are pairwise distinct within one enumeration
      if (sealed_bodies.count(nref(*en))) return nullptr;
      touching = hm->scope;
      impl::Enumerator* m = SUT(en->add_member(nm));
      const int64_t pos = int64_t(hm->decls.size());
      Reading e{ int(Category_code::Enumerator) };
      expect_stmt_defaults(e);
      e.r("type", nref(*en)).s("specifiers", 0).r("name", nref(nm)).r("home_region", nref(en->body)).r("lexical_region", nref(en->body));
      e.r("initializer", nullptr).r("master", nref(*m)).r("linkage", nref(L.cxx_linkage().language().what())).q("decl_set", { nref(*m) }).s("position", pos);
      hm->decls.push_back({ m, &nm, en, code });
      if (Rec* rc = rec(nref(*en))) rc->exp.append("members", nref(*m));
      REG(static_cast<const ipr::Enumerator&>(*m), e, true);
      ienumerators.add(m); decls.add(m); add_stmt_handle(*this, m);
      return nref(*m);
   }
   case OP_class_declare_base: {
      if (classes.empty()) { Op o; o.code = OP_make_class; o.a[0] = op.a[0]; nested(o); }
      impl::Class* c = classes.pick(op.a[0]);
      const ipr::Type& t = T(op.a[1]);
      Ref tn = guarded_name(t);
      if (tn == ABSENT or nref(t) == nref(*c)) return nullptr;                 // a base needs a nameable type other than the class itself
      HomoModel* hm = nullptr;
      for (auto& h : homos) if (h.scope == &c->base_subobjects.scope) hm = &h;
      if (hm == nullptr) return nullptr;
      for (auto& de : hm->decls) if (de.type == &t or nref(*de.name) == tn) return nullptr;   // base types pairwise distinct
      if (sealed_bodies.count(nref(*c))) return nullptr;
      touching = hm->scope;
      impl::Base_type* m = SUT(c->declare_base(t));
      const int64_t pos = int64_t(hm->decls.size());
      Reading e{ int(Category_code::Base_type) };
      expect_stmt_defaults(e);
      // name() of a base is the name of its type, whatever that is at the time of asking: judged by the homogeneous-scope oracle
      e.r("type", nref(t)).s("specifiers", 0).r("home_region", nref(c->base_subobjects)).r("lexical_region", nref(c->base_subobjects));
      e.r("initializer", ABSENT).r("master", nref(*m)).r("linkage", nref(L.cxx_linkage().language().what())).q("decl_set", { nref(*m) }).s("position", pos);
      hm->decls.push_back({ m, &t.name(), &t, code });
      if (Rec* rc = rec(nref(*c))) rc->exp.append("bases", nref(*m));
      REG(static_cast<const ipr::Base_type&>(*m), e, true);
      ibases.add(m); decls.add(m); add_stmt_handle(*this, m);
      return nref(*m);
   }
   case OP_plist_add_member:
   case OP_mapping_param: {
      impl::Parameter_list* pl = nullptr;
      impl::Mapping* mp = nullptr;
      if (code == OP_mapping_param) {
         if (mappings.empty()) { Op o; o.code = OP_make_mapping; o.a[0] = op.a[0]; o.a[1] = op.a[0]; nested(o); }
         mp = mappings.pick(op.a[0]);
         pl = &mp->inputs;
      } else {
         if (plists.empty()) { Op o; o.code = OP_make_mapping; o.a[0] = op.a[0]; o.a[1] = op.a[0]; nested(o); }
         pl = plists.pick(op.a[0]);
      }
      // a parameter is printed in place by whatever prints its list: its name and type are older than that
      const Ref bound = bound_for(nref(static_cast<const ipr::Parameter_list&>(*pl)));
      return add_parameter(pl, mp, No(op.a[1], bound), To(op.a[2], bound));
   }
   case OP_closure_add_capture: {
      if (closures.empty() or decls.empty()) return nullptr;
      impl::Closure* c = closures.pick(op.a[0]);
      const ipr::Decl& d = *decls.pick(op.a[1]);
      const auto mode = ipr::Binding_mode(uint64_t(op.a[2]) % 3);
      touching = c;
      SUT(c->captures.push_back(d, mode));
      if (Rec* rc = rec(nref(*c))) { rc->exp.append("members", nref(d)); rc->exp.append("members", reinterpret_cast<Ref>(uintptr_t(0x100 + int(mode)))); }
      return nref(*c);
   }
   default:
      return nullptr;
   }
}


Ref World::add_parameter(impl::Parameter_list* pl, impl::Mapping* mp, const ipr::Name& nm, const ipr::Type& t)
{
   const ipr::Lexicon& L = *lex;
   HomoModel* hm = nullptr;
   for (auto& h : homos) if (h.scope == &pl->parms.scope) hm = &h;
   if (hm == nullptr) return nullptr;
   for (auto& de : hm->decls) if (de.name == &nm) return nullptr;          // parameter names pairwise distinct
   touching = hm->scope;
   impl::Parameter* m = mp ? SUT(mp->param(nm, t)) : SUT(pl->add_member(nm, t));
   const int64_t pos = int64_t(hm->decls.size());
   Reading e{ int(Category_code::Parameter) };
   expect_stmt_defaults(e);
   e.r("type", nref(t)).s("specifiers", 0).r("name", nref(nm)).r("home_region", nref(pl->parms)).r("lexical_region", nref(pl->parms));
   e.r("initializer", nullptr).r("master", nref(*m)).r("linkage", nref(L.cxx_linkage().language().what())).q("decl_set", { nref(*m) });
   e.s("position", pos).s("level", hm->level);
   hm->decls.push_back({ m, &nm, &t, OP_plist_add_member });
   if (Rec* rc = rec(nref(static_cast<const ipr::Parameter_list&>(*pl)))) rc->exp.append("elements", nref(*m));
   REG(static_cast<const ipr::Parameter&>(*m), e, true);
   if (auto po = print_parent.find(nref(static_cast<const ipr::Parameter_list&>(*pl))); po != print_parent.end()) print_parent[nref(*m)] = po->second;
   iparams.add(m); params.add(m); decls.add(m); add_stmt_handle(*this, m);
   return nref(*m);
}

}

// Operations on strings, names, atoms and types, with the expectations and unification keys
// the reference model derives from their inputs.
#include "world.hpp"
#include <ipr/traversal>
#include <stdexcept>

namespace model {
using sim::SutScope;
using ipr::Category_code;

namespace {
   std::string bytes_of(const std::u8string& w) { return std::string(reinterpret_cast<const char*>(w.data()), w.size()); }
   std::string bytes_of(const ipr::String& s)
   {
      auto w = s.characters();
      return std::string(reinterpret_cast<const char*>(w.data()), w.size());
   }

   Reading obs_transfer(Ref r, const ObsOptions& o) { return observe(*static_cast<const ipr::Transfer*>(r), o); }
   Reading obs_linkage(Ref r, const ObsOptions& o) { return observe(*static_cast<const ipr::Linkage*>(r), o); }
   Reading obs_convention(Ref r, const ObsOptions& o) { return observe(*static_cast<const ipr::Calling_convention*>(r), o); }

   const char8_t* const linkage_words[] = { u8"C", u8"C++", u8"Java", u8"Fortran", u8"", u8"c", u8"C+" };
   const char8_t* const convention_words[] = { u8"", u8"stdcall", u8"fastcall", u8"vectorcall", u8"cdecl", u8"C++" };
}


Ref World::apply_names_types(const Op& op)
{
   const int code = ((op.code % OP_COUNT) + OP_COUNT) % OP_COUNT;
   const ipr::Lexicon& L = *lex;
   switch (code) {
   // ------------------------------------------------------------------ strings
   case OP_get_string: {
      const std::u8string w = word(op.a[0], op.a[1]);
      const ipr::String& s = SUT(lex->get_string(w));
      const std::string b = bytes_of(w);
      Reading e(int(Category_code::String));
      e.s("size", int64_t(b.size())).s("bytes", bytes_hash(b.data(), b.size()));
      REG(s, e, false);
      UKey k; k.words = { b };
      unify(code, k, nref(s), "get_string", [this, w] { return nref(SUT(lex->get_string(w))); });
      strings.add_unique(&s);
      spelling_of_string[nref(s)] = b;
      return nref(s);
   }
   // ------------------------------------------------------------------ identifiers
   case OP_get_identifier_w:
   case OP_get_identifier_s: {
      const ipr::String* str;
      if (code == OP_get_identifier_w) str = &note_string(SUT(lex->get_string(word(op.a[0], op.a[1]))));
      else str = &S(op.a[0]);
      const std::u8string w(str->characters());
      const ipr::Identifier& id = code == OP_get_identifier_w ? SUT(lex->get_identifier(ipr::util::word_view(w))) : SUT(lex->get_identifier(*str));
      Reading e(int(Category_code::Identifier));
      e.r("operand", nref(*str));
      REG(id, e, false);
      UKey k; k.words = { bytes_of(w) };
      unify(OP_get_identifier_w, k, nref(id), "get_identifier", [this, str] { return nref(SUT(lex->get_identifier(*str))); });
      note_identifier(id);
      idents.add_unique(&id);
      names.add_unique(&id);
      return nref(id);
   }
   case OP_get_suffix: {
      const ipr::Identifier& id = Id(op.a[0]);
      const ipr::Suffix& s = SUT(lex->get_suffix(id));
      Reading e(int(Category_code::Suffix));
      e.r("operand", nref(id));
      REG(s, e, false);
      UKey k; k.refs = { nref(id) };
      unify(code, k, nref(s), "get_suffix", [this, &id] { return nref(SUT(lex->get_suffix(id))); });
      names.add_unique(&s);
      return nref(s);
   }
   case OP_get_operator_w:
   case OP_get_operator_s: {
      const ipr::String* str;
      if (code == OP_get_operator_w) str = &note_string(SUT(lex->get_string(word(op.a[0], op.a[1]))));
      else str = &S(op.a[0]);
      const std::u8string w(str->characters());
      const ipr::Operator& o = code == OP_get_operator_w ? SUT(lex->get_operator(ipr::util::word_view(w))) : SUT(lex->get_operator(*str));
      Reading e(int(Category_code::Operator));
      e.r("operand", nref(*str));
      REG(o, e, false);
      UKey k; k.words = { bytes_of(w) };
      unify(OP_get_operator_w, k, nref(o), "get_operator", [this, str] { return nref(SUT(lex->get_operator(*str))); });
      names.add_unique(&o);
      return nref(o);
   }
   case OP_get_conversion: {
      const ipr::Type& t = T(op.a[0]);
      const ipr::Conversion& c = SUT(lex->get_conversion(t));
      Reading e(int(Category_code::Conversion));
      e.r("operand", nref(t));
      REG(c, e, false);
      UKey k; k.refs = { nref(t) };
      unify(code, k, nref(c), "get_conversion", [this, &t] { return nref(SUT(lex->get_conversion(t))); });
      names.add_unique(&c);
      return nref(c);
   }
   case OP_get_ctor_name: {
      const ipr::Type& t = T(op.a[0]);
      const ipr::Ctor_name& c = SUT(lex->get_ctor_name(t));
      Reading e(int(Category_code::Ctor_name));
      e.r("operand", nref(t));
      REG(c, e, false);
      UKey k; k.refs = { nref(t) };
      unify(code, k, nref(c), "get_ctor_name", [this, &t] { return nref(SUT(lex->get_ctor_name(t))); });
      names.add_unique(&c);
      return nref(c);
   }
   case OP_get_dtor_name: {
      const ipr::Type& t = T(op.a[0]);
      const ipr::Dtor_name& c = SUT(lex->get_dtor_name(t));
      Reading e(int(Category_code::Dtor_name));
      e.r("operand", nref(t));
      REG(c, e, false);
      UKey k; k.refs = { nref(t) };
      unify(code, k, nref(c), "get_dtor_name", [this, &t] { return nref(SUT(lex->get_dtor_name(t))); });
      names.add_unique(&c);
      return nref(c);
   }
   case OP_get_guide_name: {
      if (templates.empty()) return nullptr;
      const ipr::Template& m = *templates.pick(op.a[0]);
      const ipr::Guide_name& g = SUT(lex->get_guide_name(m));
      Reading e(int(Category_code::Guide_name));
      e.r("operand", nref(m));
      REG(g, e, false);
      UKey k; k.refs = { nref(m) };
      unify(code, k, nref(g), "get_guide_name", [this, &m] { return nref(SUT(lex->get_guide_name(m))); });
      names.add_unique(&g);
      return nref(g);
   }
   // ------------------------------------------------------------------ logograms, linkages, conventions
   case OP_get_logogram: {
      const ipr::String& s = S(op.a[0]);
      const ipr::Logogram& l = SUT(lex->get_logogram(s));
      const std::string sp = bytes_of(s);
      if (nref(l.what()) != nref(s) and not (sp.empty() and l.what().size() == 0))
         fail(prop + "/creation/get_logogram", "the logogram does not stand for the string it was requested for");
      if (nref(l.operand()) != nref(l.what())) fail(prop + "/creation/get_logogram", "Logogram::what() is not operand()");
      UKey k; k.words = { sp };
      unify(code, k, &l, "get_logogram");
      logograms.add_unique(&l);
      spellings[&l] = { sp, "" };
      return &l;
   }
   case OP_get_linkage_w:
   case OP_get_linkage_s: {
      const ipr::Linkage* l;
      std::string sp;
      if (code == OP_get_linkage_w) {
         const std::u8string w = uint64_t(op.a[1]) % 3 == 0 ? std::u8string(linkage_words[uint64_t(op.a[0]) % 7]) : word(op.a[0], op.a[1]);
         sp = bytes_of(w);
         l = &SUT(lex->get_linkage(ipr::util::word_view(w)));
      } else {
         const ipr::String& s = S(op.a[0]);
         sp = bytes_of(s);
         l = &SUT(lex->get_linkage(s));
      }
      Reading e(PS_Linkage);
      e.r("language", nref(SUT(lex->get_string(ipr::util::word_view(reinterpret_cast<const char8_t*>(sp.data()), sp.size())))));
      reg_ref(l, e, false, &obs_linkage);
      UKey k; k.words = { sp };
      unify(OP_get_linkage_w, k, l, "get_linkage");
      linkages.add_unique(l);
      spellings[l] = { sp, "" };
      return l;
   }
   case OP_get_calling_convention: {
      const std::u8string w = uint64_t(op.a[1]) % 3 == 0 ? std::u8string(convention_words[uint64_t(op.a[0]) % 6]) : word(op.a[0], op.a[1]);
      const std::string sp = bytes_of(w);
      const ipr::Calling_convention& c = SUT(lex->get_calling_convention(ipr::util::word_view(w)));
      Reading e(PS_Convention);
      e.r("name", nref(SUT(lex->get_string(ipr::util::word_view(w)))));
      reg_ref(&c, e, false, &obs_convention);
      UKey k; k.words = { sp };
      unify(code, k, &c, "get_calling_convention");
      conventions.add_unique(&c);
      spellings[&c] = { sp, "" };
      return &c;
   }
   // ------------------------------------------------------------------ symbols
   case OP_get_symbol: {
      const ipr::Name& n = N(op.a[0]);
      const ipr::Type& t = T(op.a[1]);
      const ipr::Symbol& s = SUT(lex->get_symbol(n, t));
      Reading e(int(Category_code::Symbol));
      e.r("operand", nref(n)).r("type", nref(t));
      REG(s, e, false);
      UKey k; k.refs = { nref(n), nref(t) };
      unify(OP_get_symbol, k, nref(s), "get_symbol", [this, &n, &t] { return nref(SUT(lex->get_symbol(n, t))); });
      add_expr(s);
      return nref(s);
   }
   case OP_get_label: {
      const ipr::Identifier& id = Id(op.a[0]);
      const ipr::Symbol& s = SUT(lex->get_label(id));
      const std::string sp = bytes_of(id.string());
      if (sp == "default") {
         // documented: the label `default` is the constant default_value() (route checked by C13 as well)
         if (opt.routes and nref(s) != nref(L.default_value()))
            fail(prop + "/label-default-lookalike", "get_label(identifier \"default\") is not Lexicon::default_value()");
         return nref(s);
      }
      Reading e(int(Category_code::Symbol));
      e.r("operand", nref(id)).r("type", nref(L.void_type()));
      REG(s, e, false);
      UKey k; k.refs = { nref(id), nref(L.void_type()) };     // label(id) == symbol(id, void)
      unify(OP_get_symbol, k, nref(s), "get_label");
      add_expr(s);
      return nref(s);
   }
   case OP_get_this: {
      const ipr::Type& t = T(op.a[0]);
      const ipr::Symbol& s = SUT(lex->get_this(t));
      Ref nm = nref(s.name());
      if (this_name == nullptr) this_name = nm;
      if (auto id = ipr::util::view<ipr::Identifier>(s.name())) note_identifier(*id);
      Reading e(int(Category_code::Symbol));
      e.r("operand", this_name).r("type", nref(t));
      REG(s, e, false);
      UKey k; k.refs = { this_name, nref(t) };                 // this(T) == symbol("this", T)
      unify(OP_get_symbol, k, nref(s), "get_this", [this, &t] { return nref(SUT(lex->get_this(t))); });
      add_expr(s);
      return nref(s);
   }
   case OP_get_template_id:
   case OP_make_template_id: {
      if (xlists.empty()) { Op o; o.code = OP_make_expr_list; nested(o); }
      const ipr::Expr& n = E(op.a[0]);
      const ipr::Expr_list& args = *xlists.pick(op.a[1]);
      const ipr::Template_id& t = code == OP_get_template_id ? SUT(lex->get_template_id(n, args)) : *SUT(lex->make_template_id(n, args));
      Reading e(int(Category_code::Template_id));
      e.r("first", nref(n)).r("second", nref(args));
      REG(t, e, false);
      UKey k; k.refs = { nref(n), nref(args) };
      unify(OP_get_template_id, k, nref(t), "get_template_id", [this, &n, &args] { return nref(SUT(lex->get_template_id(n, args))); });
      names.add_unique(&t);
      return nref(t);
   }
   case OP_get_literal_w: case OP_get_literal_s: case OP_make_literal_w: case OP_make_literal_s: {
      const ipr::Type& t = T(op.a[0]);
      const ipr::String* str;
      const ipr::Literal* lit;
      if (code == OP_get_literal_w or code == OP_make_literal_w) {
         const std::u8string w = word(op.a[1], op.a[2]);
         str = &note_string(SUT(lex->get_string(w)));
         lit = code == OP_get_literal_w ? &SUT(lex->get_literal(t, ipr::util::word_view(w))) : SUT(lex->make_literal(t, ipr::util::word_view(w)));
      } else {
         str = &S(op.a[1]);
         lit = code == OP_get_literal_s ? &SUT(lex->get_literal(t, *str)) : SUT(lex->make_literal(t, *str));
      }
      Reading e(int(Category_code::Literal));
      e.r("first", nref(t)).r("second", nref(*str)).r("type", nref(t)).r("implementation", nullptr);
      REG(*lit, e, false);
      UKey k; k.refs = { nref(t), nref(*str) };
      unify(OP_get_literal_w, k, nref(*lit), "get_literal", [this, &t, str] { return nref(SUT(lex->get_literal(t, *str))); });
      add_expr(*lit);
      literals.add_unique(lit);
      return nref(*lit);
   }
   // ------------------------------------------------------------------ transfers
   case OP_get_transfer_from_linkage: {
      const ipr::Linkage& l = *linkages.pick(op.a[0]);
      const ipr::Transfer& x = SUT(lex->get_transfer_from_linkage(l));
      const std::string lang = bytes_of(l.language().what());
      Reading e(PS_Transfer);
      e.r("first", nref(l.language().what())).r("second", nref(ipr::String::empty_string()));
      reg_ref(&x, e, false, &obs_transfer);
      UKey k; k.words = { lang };
      unify(code, k, &x, "get_transfer_from_linkage");
      transfers.add_unique(&x);
      spellings[&x] = { lang, "" };
      return &x;
   }
   case OP_get_transfer_from_convention: {
      if (conventions.empty()) { Op o; o.code = OP_get_calling_convention; o.a[0] = op.a[0]; nested(o); }
      const ipr::Calling_convention& c = *conventions.pick(op.a[0]);
      const ipr::Transfer& x = SUT(lex->get_transfer_from_convention(c));
      const std::string cc = bytes_of(c.name().what());
      Reading e(PS_Transfer);
      e.r("first", nref(L.cxx_linkage().language().what())).r("second", nref(c.name().what()));
      reg_ref(&x, e, false, &obs_transfer);
      UKey k; k.words = { cc };
      unify(code, k, &x, "get_transfer_from_convention");
      transfers.add_unique(&x);
      spellings[&x] = { "C++", cc };
      return &x;
   }
   case OP_get_transfer: {
      if (conventions.empty()) { Op o; o.code = OP_get_calling_convention; o.a[0] = op.a[1]; nested(o); }
      const ipr::Linkage& l = *linkages.pick(op.a[0]);
      const ipr::Calling_convention& c = *conventions.pick(op.a[1]);
      const ipr::Transfer& x = SUT(lex->get_transfer(l, c));
      const std::string lang = bytes_of(l.language().what());
      const std::string cc = bytes_of(c.name().what());
      Reading e(PS_Transfer);
      e.r("first", nref(l.language().what())).r("second", nref(c.name().what()));
      reg_ref(&x, e, false, &obs_transfer);
      UKey k; k.words = { lang, cc };
      unify(code, k, &x, "get_transfer");
      transfers.add_unique(&x);
      spellings[&x] = { lang, cc };
      return &x;
   }
   // ------------------------------------------------------------------ types
   case OP_get_as_type_id: {
      const ipr::Identifier& id = Id(op.a[0]);
      const ipr::As_type& t = SUT(lex->get_as_type(id));
      // An identifier that *is* the name of a built-in denotes the built-in.
      for (auto b : builtins.types)
         if (nref(b->name()) == nref(id)) {
            if (opt.routes and nref(t) != nref(*b)) fail(prop + "/builtin-lookalike", "get_as_type(name of a built-in type) is not that built-in type");
            return nref(t);
         }
      Reading e(int(Category_code::As_type));
      e.r("name", nref(id));
      expect_composite(e, *this);
      REG(t, e, false);
      UKey k; k.refs = { nref(id) };
      unify(code, k, nref(t), "get_as_type(Identifier)", [this, &id] { return nref(SUT(lex->get_as_type(id))); });
      add_type(t);
      return nref(t);
   }
   case OP_get_as_type_expr:
   case OP_get_as_type_xfer: {
      const ipr::Expr& x = E(op.a[0]);
      const ipr::As_type* t;
      std::string lang = "C++", cc = "";
      Ref lang_s = nref(L.cxx_linkage().language().what()), cc_s = nref(ipr::String::empty_string());
      if (code == OP_get_as_type_expr or transfers.empty()) t = &SUT(lex->get_as_type(x));
      else {
         const ipr::Transfer& xf = *transfers.pick(op.a[1]);
         lang = spellings[&xf].first;
         cc = spellings[&xf].second;
         lang_s = nref(xf.linkage().language().what());
         cc_s = nref(xf.convention().name().what());
         t = &SUT(lex->get_as_type(x, xf));
      }
      Reading e(int(Category_code::As_type));
      e.r("operand", nref(x));
      e.r("type", nref(L.typename_type()));
      if (lang == "C++" and cc.empty()) { lang_s = nref(L.cxx_linkage().language().what()); cc_s = nref(ipr::String::empty_string()); }
      e.r("transfer.linkage", lang_s).r("transfer.convention", cc_s);
      REG(*t, e, false);
      UKey k; k.refs = { nref(x) }; k.words = { lang, cc };        // spelling out the natural transfer is the same request
      unify(OP_get_as_type_expr, k, nref(*t), "get_as_type(Expr)", lang == "C++" and cc.empty() ? std::function<Ref()>([this, &x] { return nref(SUT(lex->get_as_type(x))); }) : std::function<Ref()>{ });
      add_type(*t);
      return nref(*t);
   }
   case OP_get_array: {
      const ipr::Type& t = T(op.a[0]);
      const ipr::Expr& b = E(op.a[1]);
      const ipr::Array& a = SUT(lex->get_array(t, b));
      Reading e(int(Category_code::Array));
      e.r("first", nref(t)).r("second", nref(b));
      expect_composite(e, *this);
      REG(a, e, false);
      UKey k; k.refs = { nref(t), nref(b) };
      unify(code, k, nref(a), "get_array", [this, &t, &b] { return nref(SUT(lex->get_array(t, b))); });
      add_type(a);
      return nref(a);
   }
   case OP_get_qualified: {
      const ipr::Type& t = (uint64_t(op.a[2]) % 2 == 1 and last_qualified != nullptr) ? static_cast<const ipr::Type&>(*last_qualified) : T(op.a[1]);
      ipr::Qualifiers q = quals(op.a[0]);
      if (q == ipr::Qualifiers{ }) {
         // the empty request is refused and creates nothing
         try {
            const ipr::Qualified& r = SUT(lex->get_qualified(q, t));
            fail(prop + "/empty-qualifier-accepted", "get_qualified with an empty qualifier set returned " + ref_str(nref(r)) + " instead of refusing");
         }
         catch (const std::logic_error&) { ctx.event("get_qualified(empty) refused"); }
         return nullptr;
      }
      // normal form: union of the qualifier sets over the innermost unqualified type
      uint64_t want_q = uint64_t(q);
      const ipr::Type* main = &t;
      if (Rec* rc = rec(nref(t)); rc != nullptr and rc->exp.cat == int(Category_code::Qualified)) {
         want_q |= uint64_t(rc->exp.find("first")->val);
         main = static_cast<const ipr::Type*>(static_cast<const ipr::Node*>(rc->exp.find("second")->ref)) ;
      }
      const ipr::Qualified& r = SUT(lex->get_qualified(q, t));
      Reading e(int(Category_code::Qualified));
      e.s("first", int64_t(want_q)).r("second", nref(*main));
      expect_composite(e, *this);
      REG(r, e, false);
      UKey k; k.vals = { int64_t(want_q) }; k.refs = { nref(*main) };
      unify(code, k, nref(r), "get_qualified", [this, q, &t] { return nref(SUT(lex->get_qualified(q, t))); });
      add_type(r);
      qualifieds.add_unique(&r);
      last_qualified = &r;
      return nref(r);
   }
   case OP_get_decltype: {
      const ipr::Expr& x = E(op.a[0]);
      const ipr::Decltype& d = SUT(lex->get_decltype(x));
      if (nref(x) == nref(L.nullptr_value())) {
         if (opt.routes and nref(d) != nref(L.nullptr_value().type())) fail(prop + "/decltype-nullptr-lookalike", "get_decltype(nullptr_value()) is not nullptr_value().type()");
         return nref(d);
      }
      Reading e(int(Category_code::Decltype));
      e.r("operand", nref(x));
      expect_composite(e, *this);
      REG(d, e, true);
      add_type(d);
      return nref(d);
   }
   case OP_get_tor: {
      if (products.empty()) { Op o; o.code = OP_get_product_wh; o.a[0] = 1; nested(o); }
      if (sums.empty()) { Op o; o.code = OP_get_sum_wh; o.a[0] = 1; nested(o); }
      const ipr::Product& s = *products.pick(op.a[0]);
      const ipr::Sum& x = *sums.pick(op.a[1]);
      const ipr::Tor& t = SUT(lex->get_tor(s, x));
      Reading e(int(Category_code::Tor));
      e.r("first", nref(s)).r("second", nref(x));
      expect_composite(e, *this);
      REG(t, e, false);
      UKey k; k.refs = { nref(s), nref(x) };
      unify(code, k, nref(t), "get_tor", [this, &s, &x] { return nref(SUT(lex->get_tor(s, x))); });
      add_type(t);
      return nref(t);
   }
   case OP_get_function2: case OP_get_function_xfer: case OP_get_function_eh: case OP_get_function_eh_xfer: {
      if (products.empty()) { Op o; o.code = OP_get_product_wh; o.a[0] = 2; nested(o); }
      const ipr::Product& s = *products.pick(op.a[0]);
      const ipr::Type& t = T(op.a[1]);
      const bool with_eh = code == OP_get_function_eh or code == OP_get_function_eh_xfer;
      const bool with_xfer = (code == OP_get_function_xfer or code == OP_get_function_eh_xfer) and not transfers.empty();
      // the default specification is `false` (non-throwing); a request may spell it out
      const ipr::Expr& eh = with_eh ? (uint64_t(op.a[2]) % 4 == 0 ? static_cast<const ipr::Expr&>(L.false_value()) : E(op.a[2])) : static_cast<const ipr::Expr&>(L.false_value());
      std::string lang = "C++", cc = "";
      Ref lang_s = nref(L.cxx_linkage().language().what()), cc_s = nref(ipr::String::empty_string());
      const ipr::Function* f;
      if (with_xfer) {
         const ipr::Transfer& xf = *transfers.pick(op.a[3]);
         lang = spellings[&xf].first;
         cc = spellings[&xf].second;
         if (not (lang == "C++" and cc.empty())) { lang_s = nref(xf.linkage().language().what()); cc_s = nref(xf.convention().name().what()); }
         f = with_eh ? &SUT(lex->get_function(s, t, eh, xf)) : &SUT(lex->get_function(s, t, xf));
      } else
         f = with_eh ? &SUT(lex->get_function(s, t, eh)) : &SUT(lex->get_function(s, t));
      Reading e(int(Category_code::Function));
      e.r("first", nref(s)).r("second", nref(t)).r("third", nref(eh));
      e.r("type", nref(L.typename_type())).r("transfer.linkage", lang_s).r("transfer.convention", cc_s);
      REG(*f, e, false);
      UKey k; k.refs = { nref(s), nref(t), nref(eh) }; k.words = { lang, cc };
      {
         const ipr::Transfer* xfp = with_xfer ? transfers.pick(op.a[3]) : nullptr;
         unify(OP_get_function2, k, nref(*f), "get_function", [this, &s, &t, &eh, xfp] {
            return xfp ? nref(SUT(lex->get_function(s, t, eh, *xfp))) : nref(SUT(lex->get_function(s, t, eh)));
         });
      }
      add_type(*f);
      functions.add_unique(f);
      return nref(*f);
   }
   case OP_get_pointer: {
      const ipr::Type& t = T(op.a[0]);
      const ipr::Pointer& p = SUT(lex->get_pointer(t));
      Reading e(int(Category_code::Pointer));
      e.r("operand", nref(t));
      expect_composite(e, *this);
      REG(p, e, false);
      UKey k; k.refs = { nref(t) };
      unify(code, k, nref(p), "get_pointer", [this, &t] { return nref(SUT(lex->get_pointer(t))); });
      add_type(p);
      return nref(p);
   }
   case OP_get_reference: {
      const ipr::Type& t = T(op.a[0]);
      const ipr::Reference& p = SUT(lex->get_reference(t));
      Reading e(int(Category_code::Reference));
      e.r("operand", nref(t));
      expect_composite(e, *this);
      REG(p, e, false);
      UKey k; k.refs = { nref(t) };
      unify(code, k, nref(p), "get_reference", [this, &t] { return nref(SUT(lex->get_reference(t))); });
      add_type(p);
      return nref(p);
   }
   case OP_get_rvalue_reference: {
      const ipr::Type& t = T(op.a[0]);
      const ipr::Rvalue_reference& p = SUT(lex->get_rvalue_reference(t));
      Reading e(int(Category_code::Rvalue_reference));
      e.r("operand", nref(t));
      expect_composite(e, *this);
      REG(p, e, false);
      UKey k; k.refs = { nref(t) };
      unify(code, k, nref(p), "get_rvalue_reference", [this, &t] { return nref(SUT(lex->get_rvalue_reference(t))); });
      add_type(p);
      return nref(p);
   }
   case OP_get_product_wh: case OP_get_sum_wh: case OP_get_product_seq: case OP_get_sum_seq: {
      const bool is_product = code == OP_get_product_wh or code == OP_get_product_seq;
      std::vector<Ref> elems;
      const ipr::Type* result;
      if (code == OP_get_product_wh or code == OP_get_sum_wh or (products.empty() and sums.empty())) {
         const size_t n = size_t(uint64_t(op.a[0]) % 9);
         // the warehouse lives in the arena and dies right after the call: its contents must have been copied
         ArenaWarehouse wh;
         for (size_t i = 0; i < n; ++i) {
            const ipr::Type& t = T(op.a[1] + int64_t(i) * (1 + int64_t(uint64_t(op.a[2]) % 5)));
            SUT(wh->push_back(t));
            elems.push_back(nref(t));
         }
         result = is_product ? static_cast<const ipr::Type*>(&SUT(lex->get_product(*wh))) : static_cast<const ipr::Type*>(&SUT(lex->get_sum(*wh)));
         wh.release();
      } else {
         // a sequence owned by the Lexicon: the elements of an existing product or sum
         const ipr::Sequence<ipr::Type>* seq;
         if ((uint64_t(op.a[1]) % 2 == 0 and not products.empty()) or sums.empty()) seq = &products.pick(op.a[0])->elements();
         else seq = &sums.pick(op.a[0])->elements();
         for (auto& t : *seq) elems.push_back(nref(t));
         result = is_product ? static_cast<const ipr::Type*>(&SUT(lex->get_product(*seq))) : static_cast<const ipr::Type*>(&SUT(lex->get_sum(*seq)));
      }
      Reading e(int(is_product ? Category_code::Product : Category_code::Sum));
      e.q("elements", elems);
      expect_composite(e, *this);
      REG(*result, e, false);
      UKey k; k.refs = elems;
      unify(is_product ? OP_get_product_wh : OP_get_sum_wh, k, nref(*result), is_product ? "get_product" : "get_sum", [this, elems, is_product] {
         impl::Warehouse<ipr::Type> wh;
         for (auto r : elems) wh.push_back(*static_cast<const ipr::Type*>(static_cast<const ipr::Node*>(r)));
         return is_product ? nref(SUT(lex->get_product(wh))) : nref(SUT(lex->get_sum(wh)));
      });
      add_type(*result);
      if (is_product) products.add_unique(static_cast<const ipr::Product*>(result)); else sums.add_unique(static_cast<const ipr::Sum*>(result));
      return nref(*result);
   }
   case OP_get_ptr_to_member: {
      const ipr::Type& c = T(op.a[0]);
      const ipr::Type& m = T(op.a[1]);
      const ipr::Ptr_to_member& p = SUT(lex->get_ptr_to_member(c, m));
      Reading e(int(Category_code::Ptr_to_member));
      e.r("first", nref(c)).r("second", nref(m));
      expect_composite(e, *this);
      REG(p, e, false);
      UKey k; k.refs = { nref(c), nref(m) };
      unify(code, k, nref(p), "get_ptr_to_member", [this, &c, &m] { return nref(SUT(lex->get_ptr_to_member(c, m))); });
      add_type(p);
      return nref(p);
   }
   case OP_get_forall: {
      if (products.empty()) { Op o; o.code = OP_get_product_wh; o.a[0] = 1; nested(o); }
      const ipr::Product& s = *products.pick(op.a[0]);
      const ipr::Type* tp = &T(op.a[1]);
      // a Forall prints the body of a user-defined target in place: such a target is sealed (see can_seal_as_body)
      if (Rec* tr = rec(nref(*tp)); tr != nullptr and is_udt_category(tr->exp.cat)) {
         if (sealed_bodies.count(nref(*tp)) == 0 and not can_seal_as_body(*tp, next_seq + 1)) tp = &L.int_type();
         else sealed_bodies.insert(nref(*tp));
      }
      const ipr::Type& t = *tp;
      const ipr::Forall& f = SUT(lex->get_forall(s, t));
      Reading e(int(Category_code::Forall));
      e.r("first", nref(s)).r("second", nref(t));
      expect_composite(e, *this);
      REG(f, e, false);
      UKey k; k.refs = { nref(s), nref(t) };
      unify(code, k, nref(f), "get_forall", [this, &s, &t] { return nref(SUT(lex->get_forall(s, t))); });
      add_type(f);
      foralls.add_unique(&f);
      return nref(f);
   }
   case OP_get_auto: {
      const ipr::Auto& a = SUT(lex->get_auto());
      Reading e(int(Category_code::Auto));
      expect_composite(e, *this);
      REG(a, e, true);
      add_type(a);
      return nref(a);
   }
   // ------------------------------------------------------------------ user-defined types
   case OP_make_enum: {
      const ipr::Region& pr = AnyR(op.a[0]);
      const auto kind = uint64_t(op.a[1]) % 2 ? ipr::Enum::Kind::Scoped : ipr::Enum::Kind::Legacy;
      impl::Enum* en = SUT(lex->make_enum(pr, kind));
      Reading e(int(Category_code::Enum));
      e.r("type", nref(L.enum_type())).r("name", ABSENT).r("region", nref(en->body)).s("kind", int64_t(kind)).r("base", nullptr);
      e.r("transfer.linkage", nref(L.cxx_linkage().language().what())).r("transfer.convention", nref(ipr::String::empty_string()));
      e.q("members", { });
      REG(static_cast<const ipr::Enum&>(*en), e, true);
      note_region(en->body, &pr, nref(*en));
      HomoModel h; h.kind = H_enumerators; h.scope = &en->body.scope; h.region = &en->body; h.owner_node = en;
      homos.push_back(h);
      enums.add(en);
      add_type(*en);
      return nref(*en);
   }
   case OP_make_class: {
      const ipr::Region& pr = AnyR(op.a[0]);
      impl::Class* c = SUT(lex->make_class(pr));
      Reading e(int(Category_code::Class));
      e.r("type", nref(L.class_type())).r("name", ABSENT).r("region", nref(c->body));
      e.r("transfer.linkage", nref(L.cxx_linkage().language().what())).r("transfer.convention", nref(ipr::String::empty_string()));
      e.q("bases", { });
      REG(static_cast<const ipr::Class&>(*c), e, true);
      reg_region(c->body, &pr, nref(*c));
      note_region(c->base_subobjects, &pr, nref(*c));
      HomoModel h; h.kind = H_bases; h.scope = &c->base_subobjects.scope; h.region = &c->base_subobjects; h.owner_node = c;
      homos.push_back(h);
      classes.add(c);
      add_type(*c);
      return nref(*c);
   }
   case OP_make_union: {
      const ipr::Region& pr = AnyR(op.a[0]);
      impl::Union* u = SUT(lex->make_union(pr));
      Reading e(int(Category_code::Union));
      e.r("type", nref(L.union_type())).r("name", ABSENT).r("region", nref(u->body));
      e.r("transfer.linkage", nref(L.cxx_linkage().language().what())).r("transfer.convention", nref(ipr::String::empty_string()));
      REG(static_cast<const ipr::Union&>(*u), e, true);
      reg_region(u->body, &pr, nref(*u));
      unions.add(u);
      add_type(*u);
      return nref(*u);
   }
   case OP_make_namespace: {
      const ipr::Region& pr = AnyR(op.a[0]);
      impl::Namespace* n = SUT(lex->make_namespace(pr));
      Reading e(int(Category_code::Namespace));
      e.r("type", nref(L.namespace_type())).r("name", ABSENT).r("region", nref(n->body));
      e.r("transfer.linkage", nref(L.cxx_linkage().language().what())).r("transfer.convention", nref(ipr::String::empty_string()));
      REG(static_cast<const ipr::Namespace&>(*n), e, true);
      reg_region(n->body, &pr, nref(*n));
      namespaces.add(n);
      add_type(*n);
      return nref(*n);
   }
   case OP_make_closure: {
      const ipr::Region& pr = AnyR(op.a[0]);
      impl::Closure* c = SUT(lex->make_closure(pr));
      Reading e(int(Category_code::Closure));
      e.r("type", nref(L.class_type())).r("name", ABSENT).r("region", nref(c->body));
      e.r("transfer.linkage", nref(L.cxx_linkage().language().what())).r("transfer.convention", nref(ipr::String::empty_string()));
      REG(static_cast<const ipr::Closure&>(*c), e, true);
      reg_region(c->body, &pr, nref(*c));
      closures.add(c);
      add_type(*c);
      return nref(*c);
   }
   default:
      return nullptr;
   }
}

// ---------------------------------------------------------------------------------
// C04 / C15: value equality on logograms, linkages, conventions, transfers holds exactly
// for equal spellings and is an equivalence.
// ---------------------------------------------------------------------------------
Verdict World::check_value_equalities()
{
   const std::string tag = prop + "/value-equality";
   auto sp = [&](Ref r) -> const std::pair<std::string, std::string>& { return spellings[r]; };
   for (size_t i = 0; i < linkages.size(); ++i)
      for (size_t j = 0; j < linkages.size(); ++j) {
         const auto& a = *linkages.v[i]; const auto& b = *linkages.v[j];
         std::string sa = sp(&a).first;
         std::string sb = sp(&b).first;
         if ((a == b) != (sa == sb)) return Verdict::fail(tag + "/linkage", "linkages \"" + sa + "\" and \"" + sb + "\" compare " + ((a == b) ? "equal" : "unequal"));
         if ((a != b) == (a == b)) return Verdict::fail(tag + "/linkage", "operator!= is not the negation of operator==");
      }
   for (auto pa : conventions.v)
      for (auto pb : conventions.v) {
         if ((*pa == *pb) != (sp(pa).first == sp(pb).first))
            return Verdict::fail(tag + "/convention", "conventions \"" + sp(pa).first + "\" and \"" + sp(pb).first + "\" compare " + ((*pa == *pb) ? "equal" : "unequal"));
         if ((*pa != *pb) == (*pa == *pb)) return Verdict::fail(tag + "/convention", "operator!= is not the negation of operator==");
      }
   for (auto pa : logograms.v)
      for (auto pb : logograms.v) {
         if ((*pa == *pb) != (sp(pa).first == sp(pb).first))
            return Verdict::fail(tag + "/logogram", "logograms \"" + sp(pa).first + "\" and \"" + sp(pb).first + "\" compare " + ((*pa == *pb) ? "equal" : "unequal"));
         if ((*pa != *pb) == (*pa == *pb)) return Verdict::fail(tag + "/logogram", "operator!= is not the negation of operator==");
      }
   for (auto pa : transfers.v)
      for (auto pb : transfers.v) {
         if ((*pa == *pb) != (sp(pa) == sp(pb)))
            return Verdict::fail(tag + "/transfer", "transfers (" + sp(pa).first + "," + sp(pa).second + ") and (" + sp(pb).first + "," + sp(pb).second + ") compare " + ((*pa == *pb) ? "equal" : "unequal"));
         if ((*pa != *pb) == (*pa == *pb)) return Verdict::fail(tag + "/transfer", "operator!= is not the negation of operator==");
      }
   // the natural transfer compares equal to any transfer spelled ("C++", "")
   for (auto pa : transfers.v)
      if ((*pa == SUT(lex->int_type()).transfer()) != (sp(pa) == std::pair<std::string, std::string>("C++", "")))
         return Verdict::fail(tag + "/transfer-natural", "comparison with the natural transfer disagrees with the spelling (" + sp(pa).first + "," + sp(pa).second + ")");
   return Verdict::ok();
}

}

// A Reading is what can be observed of one object through ipr:: interface classes only,
// as named slots.  The reference model stores the *expected* reading of every object it was
// told about (built from the inputs of the operation that created it, never by observing),
// the observer produces the *actual* reading; every expected slot must be matched by the
// actual one.  Slots that the expectation does not mention are not asserted.  The same
// structure is hashed (addresses replaced by first-occurrence numbers) to obtain
// address-independent digests.
#pragma once
#include <cstdint>
#include <cstring>
#include <cstdio>
#include <string>
#include <vector>

namespace model {

using Ref = const void*;

// Sentinel: the accessor refused with an exception derived from std::logic_error.
inline Ref const ABSENT = reinterpret_cast<Ref>(uintptr_t(1));
constexpr int64_t ABSENT_SCALAR = INT64_MIN + 3;

struct Slot {
   const char* key;
   bool is_ref;
   Ref ref;
   int64_t val;
   bool is_node = false;       // ref designates an ipr::Node (can be observed further)
};

struct SeqSlot {
   const char* key;
   std::vector<Ref> elems;
   bool refused = false;       // the sequence accessor itself threw logic_error
   bool is_node = false;       // elements designate ipr::Node objects
};

struct Reading {
   int cat = -1;                       // ipr::Category_code, or a negative pseudo-category for non-node sorts
   std::vector<Slot> slots;
   std::vector<SeqSlot> seqs;
   std::string problem;                // first inconsistency noticed while reading (alias disagreement, iteration != indexing ...)
   std::string fatal;                  // an accessor threw something not derived from std::logic_error

   Reading() = default;
   explicit Reading(int c) : cat(c) { }
   Reading& r(const char* k, Ref v) { slots.push_back({ k, true, v, 0, false }); return *this; }
   Reading& n(const char* k, Ref v) { slots.push_back({ k, true, v, 0, true }); return *this; }
   Reading& s(const char* k, int64_t v) { slots.push_back({ k, false, nullptr, v, false }); return *this; }
   Reading& q(const char* k, std::vector<Ref> v) { seqs.push_back({ k, std::move(v), false, false }); return *this; }

   const Slot* find(const char* k) const
   {
      for (auto& sl : slots) if (sl.key == k or std::strcmp(sl.key, k) == 0) return &sl;
      return nullptr;
   }
   Slot* find(const char* k)
   {
      for (auto& sl : slots) if (sl.key == k or std::strcmp(sl.key, k) == 0) return &sl;
      return nullptr;
   }
   const SeqSlot* find_seq(const char* k) const
   {
      for (auto& sl : seqs) if (sl.key == k or std::strcmp(sl.key, k) == 0) return &sl;
      return nullptr;
   }
   SeqSlot* find_seq(const char* k)
   {
      for (auto& sl : seqs) if (sl.key == k or std::strcmp(sl.key, k) == 0) return &sl;
      return nullptr;
   }
   // update-or-insert (used when the client explicitly sets a field or appends a member)
   void set_r(const char* k, Ref v) { if (auto p = find(k)) { p->is_ref = true; p->ref = v; } else r(k, v); }
   void set_s(const char* k, int64_t v) { if (auto p = find(k)) { p->is_ref = false; p->val = v; } else s(k, v); }
   void append(const char* k, Ref v) { if (auto p = find_seq(k)) p->elems.push_back(v); else q(k, { v }); }
   void erase(const char* k)
   {
      for (size_t i = 0; i < slots.size(); ++i)
         if (std::strcmp(slots[i].key, k) == 0) { slots.erase(slots.begin() + long(i)); return; }
   }
   Ref ref_of(const char* k) const { auto p = find(k); return p ? p->ref : nullptr; }
};

inline std::string ref_str(Ref r)
{
   if (r == ABSENT) return "<refused:logic_error>";
   if (r == nullptr) return "<none>";
   char b[32];
   std::snprintf(b, sizeof b, "%p", r);
   return b;
}

inline std::string val_str(int64_t v)
{
   if (v == ABSENT_SCALAR) return "<refused:logic_error>";
   return std::to_string((long long) v);
}

// Empty string when `actual` conforms to `expected`.
inline std::string diff_readings(const Reading& e, const Reading& a)
{
   if (not a.fatal.empty()) return "accessor threw a non-logic_error: " + a.fatal;
   if (not a.problem.empty()) return a.problem;
   if (e.cat != a.cat) return "category: expected " + std::to_string(e.cat) + ", got " + std::to_string(a.cat);
   for (auto& es : e.slots) {
      const Slot* as = a.find(es.key);
      if (as == nullptr) return std::string("slot '") + es.key + "' is expected but was not observed (harness)";
      if (es.is_ref != as->is_ref) return std::string("slot '") + es.key + "': kind mismatch (harness)";
      if (es.is_ref) {
         if (es.ref != as->ref) return std::string(es.key) + ": expected " + ref_str(es.ref) + ", got " + ref_str(as->ref);
      } else if (es.val != as->val)
         return std::string(es.key) + ": expected " + val_str(es.val) + ", got " + val_str(as->val);
   }
   for (auto& eq : e.seqs) {
      const SeqSlot* aq = a.find_seq(eq.key);
      if (aq == nullptr) return std::string("sequence '") + eq.key + "' is expected but was not observed (harness)";
      if (aq->refused) return std::string(eq.key) + ": the sequence accessor refused with logic_error";
      if (eq.elems.size() != aq->elems.size())
         return std::string(eq.key) + ": expected " + std::to_string(eq.elems.size()) + " elements, got " + std::to_string(aq->elems.size());
      for (size_t i = 0; i < eq.elems.size(); ++i)
         if (eq.elems[i] != aq->elems[i])
            return std::string(eq.key) + "[" + std::to_string(i) + "]: expected " + ref_str(eq.elems[i]) + ", got " + ref_str(aq->elems[i]);
   }
   return "";
}

}

// World core: construction, operand selection, model bookkeeping, oracles that span
// several objects (scopes, regions, substitutions, identifier uniqueness), digests.
#include <cstdlib>
#include <cstdio>
#include "world.hpp"
#include <ipr/traversal>
#include <algorithm>
#include <stdexcept>

extern "C" char __executable_start;

namespace model {
using sim::SutScope;
using sim::HarnessScope;

namespace {
   const char* const op_names[] = {
#define X(fn, K) #fn,
      OPS_UNARY_OT(X) OPS_UNARY_E(X) OPS_UNARY_ET(X) OPS_BINARY_OT(X) OPS_CAST(X) OPS_ETT(X)
#undef X
#define X(fn) #fn,
      OPS_OTHER(X)
#undef X
   };
   static_assert(sizeof op_names / sizeof op_names[0] == OP_COUNT);
}

const char* op_name(int code)
{
   if (code < 0) code = -code;
   return op_names[code % OP_COUNT];
}

bool op_is_factory(int code)
{
   code = ((code % OP_COUNT) + OP_COUNT) % OP_COUNT;
   switch (code) {
   case OP_expr_list_push_back: case OP_general_subst: case OP_block_add_stmt: case OP_handler_add_stmt: case OP_closure_add_capture:
   case OP_get_string_huge: case OP_macro_var: case OP_macro_function: case OP_macro_class: case OP_macro_template: case OP_macro_stmt_tree:
   case OP_new_token: case OP_set_decl_fields: case OP_set_stmt_fields: case OP_set_loop_fields: case OP_set_expr_fields:
   case OP_set_udt_fields: case OP_set_form_fields: case OP_set_directive_fields: case OP_set_callable_fields: case OP_set_unit_fields:
   case OP_noise_alloc: case OP_noise_free:
      return false;
   default:
      return true;
   }
}

std::string describe_op(const Op& o)
{
   std::string s = op_name(o.code);
   s += "(";
   for (int k = 0; k < 6; ++k) { if (k) s += ","; s += std::to_string((long long) o.a[k]); }
   s += ")";
   if (o.fault) s += "!alloc#" + std::to_string(o.fault);
   if (o.client) s += "@c" + std::to_string(o.client);
   return s;
}

// ---------------------------------------------------------------------------------
World::World(RunCtx& c, const WorldOptions& o, std::string property) : ctx(c), opt(o), prop(std::move(property))
{
   op_counts.assign(OP_COUNT, 0);
   sim::heap::set_owner(opt.owner);
   {
      SutScope s;
      lex = new impl::Lexicon();
      attrs = new impl::attr_factory();
      caps = new impl::capture_spec_factory();
   }
   const ipr::Lexicon& L = *lex;
   builtins.types = { &L.void_type(), &L.bool_type(), &L.char_type(), &L.schar_type(), &L.uchar_type(), &L.wchar_t_type(),
                      &L.char8_t_type(), &L.char16_t_type(), &L.char32_t_type(), &L.short_type(), &L.ushort_type(), &L.int_type(),
                      &L.uint_type(), &L.long_type(), &L.ulong_type(), &L.long_long_type(), &L.ulong_long_type(), &L.float_type(),
                      &L.double_type(), &L.long_double_type(), &L.ellipsis_type(), &L.typename_type(), &L.class_type(), &L.union_type(),
                      &L.enum_type(), &L.namespace_type() };
   builtins.type_spellings = { "void", "bool", "char", "signed char", "unsigned char", "wchar_t", "char8_t", "char16_t", "char32_t",
                               "short", "unsigned short", "int", "unsigned int", "long", "unsigned long", "long long", "unsigned long long",
                               "float", "double", "long double", "...", "typename", "class", "union", "enum", "namespace" };
   builtins.symbols = { &L.false_value(), &L.true_value(), &L.nullptr_value(), &L.default_value(), &L.delete_value() };
   for (auto t : builtins.types) { types.add(t); builtin_leaf.insert(nref(*t)); }
   for (auto s : builtins.symbols) { exprs.add(s); builtin_leaf.insert(nref(*s)); }
   builtin_leaf.insert(nref(L.nullptr_value().type()));
   linkages.add(&L.cxx_linkage());
   linkages.add(&L.c_linkage());
   spellings[&L.cxx_linkage()] = { "C++", "" };
   spellings[&L.c_linkage()] = { "C", "" };
   transfers.add(&L.int_type().transfer());
   spellings[&L.int_type().transfer()] = { "C++", "" };
}

World::~World()
{
   if (const char* f = std::getenv("VERIF_TRACE")) {
      // pool entries the model knows nothing about (they can never be chosen where an older node is required)
      if (std::FILE* out = std::fopen(f, "a")) {
         auto scan = [&](const char* pool, auto& v) {
            for (auto p : v) if (p != nullptr and rec(nref(*p)) == nullptr and not builtin_leaf.count(nref(*p)))
               std::fprintf(out, "TRACE unmodelled %s %s %s\n", pool, category_name(int(p->category)), ref_str(nref(*p)).c_str());
         };
         scan("exprs", exprs.v); scan("types", types.v); scan("decls", decls.v); scan("stmts", stmts.v); scan("names", names.v);
         std::fclose(out);
      }
   }
   for (auto p : noise_blocks) sim::heap::noise_free(p);
   noise_blocks.clear();
   sim::heap::set_owner(opt.owner);
   SutScope s;
   // destruction in the order the language prescribes: units and modules before their Lexicon
   for (auto it = module_units.v.rbegin(); it != module_units.v.rend(); ++it) { /* owned by their module */ }
   for (auto it = modules.v.rbegin(); it != modules.v.rend(); ++it) delete *it;
   for (auto it = units.v.rbegin(); it != units.v.rend(); ++it) delete *it;
   for (auto t : tokens.v) delete t;
   for (auto q : attr_seqs) delete q;
   delete caps;
   delete attrs;
   delete lex;
}

void World::fail(const std::string& cls, const std::string& detail)
{
   if (verdict.kind == Verdict::Violation) return;
   verdict = Verdict::fail(cls, "step " + std::to_string(step) + ": " + detail);
}

// ---------------------------------------------------------------------------------
// operand selection
// ---------------------------------------------------------------------------------
const ipr::Type& World::T(int64_t sel) { return *types.pick(sel); }

const ipr::Type* World::OptT(int64_t sel)
{
   if (uint64_t(sel) % 4 == 0) return nullptr;
   return types.pick(int64_t(uint64_t(sel) / 4));
}

const ipr::Expr& World::E(int64_t sel)
{
   const uint64_t u = uint64_t(sel);
   if (u % 7 == 3 and not types.empty()) return *types.pick(int64_t(u / 7));
   if (u % 11 == 5 and not decls.empty()) return *decls.pick(int64_t(u / 11));
   if (u % 13 == 6 and not stmts.empty()) return *stmts.pick(int64_t(u / 13));
   return *exprs.pick(sel);
}

const ipr::Expr& World::E2(int64_t sel, const ipr::Expr& other)
{
   for (int k = 0; k < 4; ++k) {
      const ipr::Expr& e = E(sel + k);
      if (nref(e) != nref(other)) return e;
   }
   return E(sel);
}

std::u8string World::word(int64_t sel, int64_t style)
{
   static const char8_t* const fixed[] = { u8"x", u8"y", u8"f", u8"value", u8"T", u8"operator_name", u8"+", u8"()", u8"new[]", u8"C", u8"C++",
                                           u8"", u8"Java", u8"stdcall", u8"int", u8"default", u8"this", u8"a_rather_long_identifier_name_42",
                                           u8"0", u8"1", u8"42", u8"3.14", u8"'c'", u8"\"str\"" };
   const uint64_t u = uint64_t(sel);
   switch (uint64_t(style) % 4) {
   case 3: {    // all byte values; one in four ends in one of the bytes 0..3, one in eight has a length that fills its 16-byte granule exactly (8 mod 16)
      std::u8string w;
      const uint64_t len = u % 8 == 5 ? 8 + 16 * (u / 8 % 3) : 1 + u % 7;
      for (uint64_t k = 0, v = u * 2654435761u + 11; k < len; ++k, v = v * 6364136223846793005ull + 1442695040888963407ull) w += char8_t((v >> 33) & 0xff);
      if (u % 4 == 1) w.back() = char8_t(u / 4 % 4);
      return w;
   }
   case 0: return fixed[u % (sizeof fixed / sizeof fixed[0])];
   case 1: { std::u8string w = u8"id"; w += char8_t('a' + u % 26); w += char8_t('0' + (u / 26) % 10); return w; }
   default: { std::u8string w; for (uint64_t k = 0, v = u; k < 1 + u % 9; ++k, v = v * 31 + 7) w += char8_t(33 + v % 90); return w; }
   }
}

const ipr::String& World::S(int64_t sel)
{
   if (strings.empty() or uint64_t(sel) % 5 == 4) {
      Op o; o.code = OP_get_string; o.a[0] = sel; o.a[1] = sel / 5;
      nested(o);
   }
   return *strings.pick(sel);
}

const ipr::Identifier& World::Id(int64_t sel)
{
   if (idents.empty() or uint64_t(sel) % 5 == 4) {
      Op o; o.code = OP_get_identifier_w; o.a[0] = sel; o.a[1] = sel / 5;
      nested(o);
   }
   return *idents.pick(sel);
}

const ipr::Name& World::N(int64_t sel)
{
   if (names.empty() or uint64_t(sel) % 3 == 0) return Id(sel / 3);
   return *names.pick(sel);
}

impl::Region& World::R(int64_t sel)
{
   if (regions.empty()) {
      Op o; o.code = OP_new_unit;
      nested(o);
   }
   return *regions.pick(sel);
}

const ipr::Region& World::AnyR(int64_t sel)
{
   if (any_regions.empty()) (void) R(sel);
   return *any_regions.pick(sel);
}

ipr::Qualifiers World::quals(int64_t sel)
{
   return ipr::Qualifiers(uint64_t(sel) % 8);
}

// ---------------------------------------------------------------------------------
// model bookkeeping
// ---------------------------------------------------------------------------------
Ref World::reg_ref(Ref r, Reading exp, bool generative, ObserveFn fn)
{
   auto it = recs.find(r);
   if (it == recs.end()) {
      Rec rc;
      rc.exp = exp;
      rc.observe = fn;
      rc.born = step;
      rc.seq = ++next_seq;
      rc.maker = current_op;
      rc.generative = generative;
      recs.emplace(r, std::move(rc));
      order.push_back(r);
   } else if (generative) {
      fail(prop + "/generative-aliased/" + op_name(current_op),
           std::string(op_name(current_op)) + " returned " + ref_str(r) + ", which is already a live node made by " + op_name(it->second.maker) +
           " at step " + std::to_string(it->second.born));
      return r;
   }
   if (opt.check_creation) {
      ++creation_checks;
      ObsOptions oo;
      oo.order = unsigned(observations++ % 3);
      Reading actual = fn(r, oo);
      std::string d = diff_readings(exp, actual);
      if (not d.empty())
         fail(prop + "/creation/" + op_name(current_op), std::string(op_name(current_op)) + " -> " + category_name(actual.cat) + " " + ref_str(r) + ": " + d);
   }
   return r;
}

void World::unify(int maker, UKey key, Ref result, const char* what, std::function<Ref()> again)
{
   if (not opt.track_unification) return;
   Unifier& u = unifiers[maker];
   auto it = u.by_key.find(key);
   if (it != u.by_key.end()) {
      if (it->second != result)
         fail(prop + "/not-unified/" + what, std::string(what) + ": the same arguments returned " + ref_str(result) + " now and " + ref_str(it->second) + " earlier");
      else ++unify_hits;
      return;
   }
   auto jt = u.by_addr.find(result);
   if (jt != u.by_addr.end()) {
      fail(prop + "/aliased/" + what, std::string(what) + ": different arguments returned the same node " + ref_str(result));
      return;
   }
   u.by_key.emplace(key, result);
   u.by_addr.emplace(result, std::move(key));
   ++unify_fresh;
   if (again and rerequests.size() < 4000) rerequests.push_back({ result, what, std::move(again) });
}

Verdict World::rerequest_all(size_t cap)
{
   const size_t n = rerequests.size();
   const size_t stride = n > cap ? n / cap + 1 : 1;
   for (size_t i = 0; i < n; i += stride) {
      Ref r;
      {
         SutScope s;
         r = rerequests[i].again();
      }
      if (r != rerequests[i].expected)
         return Verdict::fail(prop + "/not-unified/" + rerequests[i].what,
                              std::string(rerequests[i].what) + ": requesting the same arguments again at the end of the run returned " + ref_str(r) +
                              ", the first request returned " + ref_str(rerequests[i].expected));
   }
   return Verdict::ok();
}

void World::note_identifier(const ipr::Identifier& id)
{
   try { word_size[nref(id)] = id.string().size(); }          // for print-size estimates only
   catch (const std::logic_error&) { }
   if (not opt.track_identifiers) return;
   std::string sp;
   try {
      auto w = id.string().characters();
      sp.assign(reinterpret_cast<const char*>(w.data()), w.size());
   }
   catch (const std::logic_error&) { return; }
   auto it = identifier_by_spelling.find(sp);
   if (it == identifier_by_spelling.end()) identifier_by_spelling.emplace(sp, nref(id));
   else if (it->second != nref(id))
      fail(prop + "/two-identifiers-one-spelling", "spelling \"" + sp + "\" is carried by two Identifier nodes: " + ref_str(it->second) + " and " + ref_str(nref(id)));
}

void World::note_region(const ipr::Region& r, const ipr::Region* parent, Ref owner, int unit)
{
   RegionModel m;
   m.region = &r;
   m.parent = parent;
   m.owner = owner;
   m.unit = unit;
   if (parent != nullptr) {
      auto it = region_models.find(parent);
      m.depth = it == region_models.end() ? 1 : it->second.depth + 1;
      if (unit < 0 and it != region_models.end()) m.unit = it->second.unit;
   }
   region_models[&r] = m;
   any_regions.add_unique(&r);
}

void World::note_scope(impl::Region& r)
{
   regions.add_unique(&r);
   ScopeModel sm;
   sm.scope = &r.scope;
   sm.region = &r;
   scopes.emplace(&r.scope, sm);
}

void World::reg_region(impl::Region& r, const ipr::Region* parent, Ref owner, int unit)
{
   note_region(r, parent, owner, unit);
   note_scope(r);
   Reading e{ int(ipr::Category_code::Region) };
   e.r("enclosing", parent ? nref(*parent) : ABSENT).r("bindings", nref(r.scope)).s("global", parent == nullptr).q("body", { });
   if (owner != ABSENT) e.r("owner", owner);
   const int saved = current_op;
   reg_ref(nref(r), e, true, &observe_node_fn);
   current_op = saved;
}

bool World::is_udt_category(int cat)
{
   using ipr::Category_code;
   return cat == int(Category_code::Class) or cat == int(Category_code::Union) or cat == int(Category_code::Enum)
       or cat == int(Category_code::Namespace) or cat == int(Category_code::Closure);
}

bool World::region_sealed(const ipr::Region& r)
{
   const ipr::Region* cur = &r;
   for (int hops = 0; cur != nullptr and hops < 64; ++hops) {
      auto it = region_models.find(cur);
      if (it == region_models.end()) return false;
      if (it->second.owner != nullptr and it->second.owner != ABSENT and sealed_bodies.count(it->second.owner)) return true;
      cur = it->second.parent;
   }
   return false;
}

bool World::can_seal_as_body(const ipr::Type& udt, uint64_t user_seq)
{
   // Termination argument for printing (DESIGN.md, C17/C18): every link the harness creates goes from a node to an
   // older one, except (i) a user-defined type -> its members and (ii) a body printer (a typedecl initialised with the
   // type, or a Forall whose target it is) -> the type.  If every member is older than every body printer and the
   // body takes no further members, a potential (birth step; for a body: the birth of its first printer minus 1/2)
   // strictly decreases along every edge the printer follows, so printing terminates on every graph the harness builds.
   for (auto& kv : region_models) {
      if (kv.second.owner != nref(udt)) continue;
      for (auto rg : regions.v) {
         if (static_cast<const ipr::Region*>(rg) != kv.first) continue;
         auto sm = scopes.find(&rg->scope);
         if (sm == scopes.end()) continue;
         for (auto& de : sm->second.decls) {
            Rec* rc = rec(nref(*de.decl));
            if (rc == nullptr or rc->seq >= user_seq) return false;
         }
      }
   }
   for (auto& h : homos) {
      if (h.owner_node != static_cast<const ipr::Node*>(&udt)) continue;
      for (auto& de : h.decls) {
         Rec* rc = rec(nref(*de.decl));
         if (rc == nullptr or rc->seq >= user_seq) return false;
      }
   }
   return true;
}

std::vector<const ipr::Decl*> World::decl_set_of(const ipr::Decl& d)
{
   std::vector<const ipr::Decl*> out;
   for (auto& kv : scopes) {
      const DeclEntry* me = nullptr;
      for (auto& de : kv.second.decls) if (de.decl == &d) me = &de;
      if (me == nullptr) continue;
      for (auto& de : kv.second.decls) if (de.name == me->name and de.type == me->type) out.push_back(de.decl);
      return out;
   }
   out.push_back(&d);
   return out;
}

void World::for_each_in_set(const ipr::Decl& d, const std::function<void(Rec&)>& f)
{
   for (auto m : decl_set_of(d))
      if (Rec* rc = rec(nref(*m))) f(*rc);
}

std::string World::check_object(Ref r, bool probe)
{
   auto it = recs.find(r);
   if (it == recs.end()) return "";
   ObsOptions oo;
   oo.probe_bounds = probe;
   oo.order = unsigned(observations++ % 3);
   Reading actual = it->second.observe(r, oo);
   std::string d = diff_readings(it->second.exp, actual);
   if (d.empty() and it->second.borrow != nullptr) {
      const Slot* t = actual.find("type");
      Ref want = ABSENT;
      try { want = nref(it->second.borrow->type()); }
      catch (const std::logic_error&) { }
      if (t == nullptr or t->ref != want)
         d = "type(): " + ref_str(t ? t->ref : nullptr) + " disagrees with the type of the node it is documented to borrow from (" + ref_str(want) + ")";
   }
   return d;
}

void World::borrow_type(Ref node, const ipr::Expr& source)
{
   auto it = recs.find(node);
   if (it == recs.end()) return;
   it->second.borrow = &source;
   if (opt.check_creation) {
      std::string d = check_object(node, false);
      if (not d.empty()) fail(prop + "/creation/" + op_name(current_op), std::string(op_name(current_op)) + " -> " + ref_str(node) + ": " + d);
   }
}

// C09: the type of a scope, parameter list or expression list is the product of its current elements' types.
namespace {
   template<class Seq>
   std::string product_tracks(const ipr::Type& ty, const Seq& elems)
   {
      const ipr::Product* p = ipr::util::view<ipr::Product>(ty);
      if (p == nullptr) return "type() is not a Product";
      if (p->size() != elems.size()) return "type() has " + std::to_string(p->size()) + " components for " + std::to_string(elems.size()) + " elements";
      for (size_t i = 0; i < elems.size(); ++i) {
         Ref want = ABSENT, got = ABSENT;
         try { want = nref(elems.position(i)->type()); } catch (const std::logic_error&) { }
         try { got = nref((*p)[i]); } catch (const std::logic_error&) { }
         if (want != got) return "component " + std::to_string(i) + " is " + ref_str(got) + ", the element's type is " + ref_str(want);
      }
      return "";
   }
}

Verdict World::check_products()
{
   for (auto x : xlists.v) {
      const ipr::Expr_list& l = *x;
      std::string d = product_tracks(l.type(), l.elements());
      if (not d.empty()) return Verdict::fail(prop + "/product-tracking/expr_list", "Expr_list " + ref_str(nref(l)) + ": " + d);
   }
   for (auto pl : plists.v) {
      const ipr::Parameter_list& l = *pl;
      std::string d = product_tracks(l.type(), l.elements());
      if (not d.empty()) return Verdict::fail(prop + "/product-tracking/parameter_list", "Parameter_list " + ref_str(nref(l)) + ": " + d);
   }
   // (also for a scope into which an insertion failed: the type follows the members the scope lists, whatever they are)
   for (auto& kv : scopes) {
      const ipr::Scope& sc = *kv.first;
      std::string d = product_tracks(sc.type(), sc.elements());
      if (not d.empty()) return Verdict::fail(prop + "/product-tracking/scope", "Scope " + ref_str(nref(sc)) + ": " + d);
   }
   for (auto& h : homos) {
      std::string d = product_tracks(h.scope->type(), h.scope->elements());
      if (not d.empty()) return Verdict::fail(prop + "/product-tracking/homogeneous_scope", "Scope " + ref_str(nref(*h.scope)) + ": " + d);
   }
   return Verdict::ok();
}

Verdict World::recheck_all(size_t window)
{
   const size_t n = order.size();
   if (n == 0) return Verdict::ok();
   size_t begin = 0, count = n;
   if (window != 0 and window < n) { begin = (size_t(step) * window) % n; count = window; }
   for (size_t k = 0; k < count; ++k) {
      Ref r = order[(begin + k) % n];
      std::string d = check_object(r, opt.probe_bounds);
      if (not d.empty()) {
         const Rec& rc = recs[r];
         return Verdict::fail(prop + "/changed/" + op_name(rc.maker),
                              "step " + std::to_string(step) + ": object " + ref_str(r) + " (" + category_name(rc.exp.cat) + ", made by " + op_name(rc.maker) +
                              " at step " + std::to_string(rc.born) + ") no longer reads as it did: " + d);
      }
   }
   return Verdict::ok();
}

Verdict World::sweep_reachable(size_t cap)
{
   std::unordered_map<Ref, int> seen;
   std::vector<Ref> queue;
   ObsOptions oo;
   oo.probe_bounds = true;
   oo.order = unsigned(observations++ % 3);
   auto enqueue_from = [&](const Reading& a) {
      for (auto& sl : a.slots)
         if (sl.is_ref and sl.is_node and sl.ref != nullptr and sl.ref != ABSENT and recs.find(sl.ref) == recs.end() and seen.emplace(sl.ref, 1).second) queue.push_back(sl.ref);
      for (auto& sq : a.seqs)
         if (sq.is_node)
            for (auto e : sq.elems)
               if (e != nullptr and e != ABSENT and recs.find(e) == recs.end() and seen.emplace(e, 1).second) queue.push_back(e);
   };
   for (Ref r : order) {
      const Rec& rc = recs[r];
      Reading a = rc.observe(r, oo);
      if (not a.fatal.empty())
         return Verdict::fail(prop + "/non-logic-error/" + category_name(a.cat), "object made by " + std::string(op_name(rc.maker)) + ": " + a.fatal);
      if (not a.problem.empty())
         return Verdict::fail(prop + "/accessor/" + category_name(a.cat), "object made by " + std::string(op_name(rc.maker)) + ": " + a.problem);
      enqueue_from(a);
   }
   for (size_t i = 0; i < queue.size() and i < cap; ++i) {
      const ipr::Node& n = *static_cast<const ipr::Node*>(queue[i]);
      Reading a = observe(n, oo);
      ++swept_unmodelled;
      if (not a.fatal.empty()) return Verdict::fail(prop + "/non-logic-error/" + category_name(a.cat), std::string("unmodelled ") + category_name(a.cat) + " node: " + a.fatal);
      if (not a.problem.empty()) return Verdict::fail(prop + "/accessor/" + category_name(a.cat), std::string("unmodelled ") + category_name(a.cat) + " node: " + a.problem);
      enqueue_from(a);
   }
   return Verdict::ok();
}

Verdict World::check_derived()
{
   const std::string tag = prop + "/derived";
   auto block_rule = [&](const ipr::Block& b) -> Verdict {
      const bool has = b.handlers().size() != 0;
      if (b.try_block() != has)
         return Verdict::fail(tag + "/try_block", std::string("try_block() is ") + (b.try_block() ? "true" : "false") + " for a block with " + std::to_string(b.handlers().size()) + " handlers");
      return Verdict::ok();
   };
   for (auto b : blocks.v) if (Verdict v = block_rule(*b); not v) return v;
   for (auto h : handlers.v) if (Verdict v = block_rule(static_cast<const ipr::Handler&>(*h).body()); not v) return v;
   // equality on basic specifiers / qualifiers is an equivalence that holds exactly for equal spellings
   const ipr::Lexicon& L = *lex;
   auto specs = L.decompose(ipr::Specifiers(~std::uintptr_t{ }));
   for (size_t i = 0; i < specs.size(); ++i)
      for (size_t j = 0; j < specs.size(); ++j) {
         const bool same_spelling = specs[i].logogram().what().characters() == specs[j].logogram().what().characters();
         if ((specs[i] == specs[j]) != same_spelling) return Verdict::fail(tag + "/basic-specifier-equality", "== on basic specifiers disagrees with their spellings");
      }
   auto qs = L.decompose(ipr::Qualifiers(~std::uintptr_t{ }));
   for (size_t i = 0; i < qs.size(); ++i)
      for (size_t j = 0; j < qs.size(); ++j) {
         const bool same_spelling = qs[i].logogram().what().characters() == qs[j].logogram().what().characters();
         if ((qs[i] == qs[j]) != same_spelling) return Verdict::fail(tag + "/basic-qualifier-equality", "== on basic qualifiers disagrees with their spellings");
      }
   return Verdict::ok();
}

// ---------------------------------------------------------------------------------
// C07: scopes, overload sets, declaration sets
// ---------------------------------------------------------------------------------
namespace {
   Ref guarded_type(const ipr::Expr& e)
   {
      try { return nref(e.type()); }
      catch (const std::logic_error&) { return ABSENT; }
   }
}

// A scope into which an insertion was cut short by an injected allocation failure.  Each such insertion may or may not
// have taken effect (the library documents neither), so the contents are not compared one to one with the model.  What was
// acknowledged before stays right, and the scope stays consistent with itself:
//  * every declaration entered successfully is listed, in entry order; besides them at most one unknown member per
//    failed insertion;
//  * the scope's type is the product of the types of the members it lists, in that order (C09, by observation);
//  * every listed declaration belongs to its own declaration-set, the members of a declaration-set are pairwise distinct,
//    and master() is the set's first member (C07, by observation); everything reached is touched (C19).
Verdict World::check_tainted_scope(const ScopeModel& sm)
{
   const ipr::Scope& sc = *sm.scope;
   const std::string tag = prop + "/scope/after-bad_alloc";
   const auto& el = sc.elements();
   const size_t n = el.size();
   const int budget = taint_count.count(sm.scope) ? taint_count[sm.scope] : 1;
   if (n < sm.decls.size() or n > sm.decls.size() + size_t(budget))
      return Verdict::fail(tag + "/elements-size", "scope lists " + std::to_string(n) + " declarations; " + std::to_string(sm.decls.size()) + " insertions succeeded and " + std::to_string(budget) + " failed");
   size_t next = 0;
   for (size_t i = 0; i < n and next < sm.decls.size(); ++i)
      if (nref(*el.position(i)) == nref(*sm.decls[next].decl)) ++next;
   if (next != sm.decls.size())
      return Verdict::fail(tag + "/entry-order", "the declarations entered successfully are not all listed in entry order (" + std::to_string(next) + " of " + std::to_string(sm.decls.size()) + " found)");
   const ipr::Product* prod = ipr::util::view<ipr::Product>(sc.type());
   if (prod == nullptr) return Verdict::fail(tag + "/type-not-product", "the type of a scope is not a Product");
   if (prod->size() != n)
      return Verdict::fail(tag + "/type-size", "scope type has " + std::to_string(prod->size()) + " components, the scope lists " + std::to_string(n) + " declarations");
   for (size_t i = 0; i < n; ++i) {
      const ipr::Decl& d = *el.position(i);
      if (nref((*prod)[i]) != guarded_type(d)) return Verdict::fail(tag + "/type-component", "component " + std::to_string(i) + " of the scope's type is not the type of the declaration listed at " + std::to_string(i));
      const auto& ds = d.decl_set();
      bool self = false;
      std::set<Ref> seen;
      for (size_t k = 0; k < ds.size(); ++k) {
         Ref m = nref(*ds.position(k));
         (void) ds.position(k)->category;
         if (m == nref(d)) self = true;
         if (not seen.insert(m).second) return Verdict::fail(tag + "/decl-set-duplicate", "decl_set() of listed declaration " + std::to_string(i) + " lists one declaration twice");
      }
      if (not self) return Verdict::fail(tag + "/decl-set-self", "listed declaration " + std::to_string(i) + " is not a member of its own decl_set()");
      Ref m = ABSENT;
      try { m = nref(d.master()); }
      catch (const std::logic_error&) { }
      if (ds.size() > 0 and m != nref(*ds.position(0))) return Verdict::fail(tag + "/master", "master() of listed declaration " + std::to_string(i) + " is not the first member of its decl_set()");
   }
   return Verdict::ok();
}

Verdict World::check_scope(const ScopeModel& sm)
{
   if (tainted.count(sm.scope)) return check_tainted_scope(sm);
   const ipr::Scope& sc = *sm.scope;
   const std::string tag = prop + "/scope";
   const auto& el = sc.elements();
   if (el.size() != sm.decls.size())
      return Verdict::fail(tag + "/elements-size", "scope lists " + std::to_string(el.size()) + " declarations, " + std::to_string(sm.decls.size()) + " were entered");
   // type is the product of the declarations' types in entry order
   const ipr::Product* prod = ipr::util::view<ipr::Product>(sc.type());
   if (prod == nullptr) return Verdict::fail(tag + "/type-not-product", "the type of a scope is not a Product");
   if (prod->size() != sm.decls.size())
      return Verdict::fail(tag + "/type-size", "scope type has " + std::to_string(prod->size()) + " components for " + std::to_string(sm.decls.size()) + " declarations");
   for (size_t i = 0; i < sm.decls.size(); ++i) {
      const DeclEntry& de = sm.decls[i];
      const ipr::Decl& d = *el.position(i);
      if (nref(d) != nref(*de.decl))
         return Verdict::fail(tag + "/entry-order", "element " + std::to_string(i) + " is " + ref_str(nref(d)) + ", the declaration entered at that position is " + ref_str(nref(*de.decl)));
      if (nref((*prod)[i]) != nref(*de.type))
         return Verdict::fail(tag + "/type-component", "component " + std::to_string(i) + " of the scope's type is not the type of declaration " + std::to_string(i));
      if (nref(d.name()) != nref(*de.name)) return Verdict::fail(tag + "/decl-name/" + op_name(de.kind), "declaration " + std::to_string(i) + " does not report the name it was declared with");
      if (nref(d.type()) != nref(*de.type)) return Verdict::fail(tag + "/decl-type/" + op_name(de.kind), "declaration " + std::to_string(i) + " does not report the type it was declared with");
   }
   // lookup by name, selection by type, master, decl-set
   std::map<const ipr::Name*, std::map<const ipr::Type*, std::vector<const ipr::Decl*>>> groups;
   std::vector<const ipr::Name*> name_order;
   for (auto& de : sm.decls) {
      if (groups.find(de.name) == groups.end()) name_order.push_back(de.name);
      groups[de.name][de.type].push_back(de.decl);
   }
   for (auto name : name_order) {
      auto ovl = sc[*name];
      if (not ovl.is_valid())
         return Verdict::fail(tag + "/lookup-miss", "a name declared in the scope is not found by scope[name]");
      for (auto& [type, set] : groups[name]) {
         auto first = ovl.get()[*type];
         if (not first.is_valid())
            return Verdict::fail(tag + "/select-miss", "overload[type] finds nothing for a (name, type) pair that was declared");
         if (nref(first.get()) != nref(*set.front()))
            return Verdict::fail(tag + "/select-not-first", "overload[type] is not the first declaration entered with that name and type");
         for (auto d : set) {
            Ref m = ABSENT;
            try { m = nref(d->master()); }
            catch (const std::logic_error&) { }
            if (m != nref(*set.front()))
               return Verdict::fail(tag + "/master", "master() of a declaration is " + ref_str(m) + ", expected the first declaration of its (name, type) " + ref_str(nref(*set.front())));
            const auto& ds = d->decl_set();
            if (ds.size() != set.size())
               return Verdict::fail(tag + "/decl-set-size", "decl_set() has " + std::to_string(ds.size()) + " members, " + std::to_string(set.size()) + " declarations share its name and type");
            for (size_t k = 0; k < set.size(); ++k)
               if (nref(*ds.position(k)) != nref(*set[k]))
                  return Verdict::fail(tag + "/decl-set-order", "decl_set() is not in entry order");
         }
      }
      // a type never used with this name selects nothing
      for (auto t : builtins.types) {
         if (groups[name].find(t) != groups[name].end()) continue;
         if (ovl.get()[*t].is_valid()) return Verdict::fail(tag + "/select-phantom", "overload[type] returned a declaration for a type never declared under that name");
         break;
      }
   }
   // names not declared here are not found
   for (auto id : idents.v) {
      if (groups.find(id) != groups.end()) continue;
      if (sc[*id].is_valid()) return Verdict::fail(tag + "/lookup-phantom", "scope[name] returned an overload set for a name never declared there");
   }
   return Verdict::ok();
}

Verdict World::check_all_scopes()
{
   for (auto& kv : scopes)
      if (Verdict v = check_scope(kv.second); not v) return v;
   for (auto& h : homos)
      if (Verdict v = check_homogeneous(h); not v) return v;
   return Verdict::ok();
}

Verdict World::check_homogeneous(const HomoModel& h)
{
   static const char* kinds[] = { "parameters", "enumerators", "bases", "eh" };
   const std::string tag = prop + "/homogeneous/" + kinds[h.kind];
   if (tainted.count(h.scope)) {
      // An operation on this list was cut short by an injected allocation failure.  What it then contains is the
      // library's business, but it is still a sequence: every index below size() designates a member, and a member's
      // position is its index (observation only, nothing is compared with the model).
      const auto& el = h.scope->elements();
      const size_t n = el.size();
      if (n > h.decls.size() + 1) return Verdict::fail(tag + "/after-fault/size", "after one failed insertion the list reports " + std::to_string(n) + " members, " + std::to_string(h.decls.size()) + " insertions succeeded");
      for (size_t i = 0; i < n; ++i) {
         const ipr::Decl& d = *el.position(i);
         int64_t pos = int64_t(i);
         if (auto p = ipr::util::view<ipr::Parameter>(d)) pos = int64_t(p->position());
         else if (auto e = ipr::util::view<ipr::Enumerator>(d)) pos = int64_t(e->position());
         else if (auto b = ipr::util::view<ipr::Base_type>(d)) pos = int64_t(b->position());
         if (pos != int64_t(i)) return Verdict::fail(tag + "/after-fault/position", "after a failed insertion, member " + std::to_string(i) + " reports position " + std::to_string((long long) pos));
      }
      return Verdict::ok();
   }
   const ipr::Scope& sc = *h.scope;
   const auto& el = sc.elements();
   if (el.size() != h.decls.size())
      return Verdict::fail(tag + "/elements-size", "lists " + std::to_string(el.size()) + " members, " + std::to_string(h.decls.size()) + " were added");
   const ipr::Product* prod = ipr::util::view<ipr::Product>(sc.type());
   if (prod == nullptr or prod->size() != h.decls.size()) return Verdict::fail(tag + "/type", "the scope's type is not the product of its members' types");
   for (size_t i = 0; i < h.decls.size(); ++i) {
      const DeclEntry& de = h.decls[i];
      const ipr::Decl& d = *el.position(i);
      if (nref(d) != nref(*de.decl)) return Verdict::fail(tag + "/entry-order", "member " + std::to_string(i) + " is not the one added at that position");
      if (nref((*prod)[i]) != guarded_type(d)) return Verdict::fail(tag + "/type-component", "component " + std::to_string(i) + " of the type is not the member's type");
      if (nref(d.type()) != nref(*de.type)) return Verdict::fail(tag + "/decl-type", "member " + std::to_string(i) + " does not report its type");
      // a base is named after its type (whatever that type's name is now); the others by the name they were given
      const ipr::Name* want_name = de.name;
      if (h.kind == H_bases) {
         try { want_name = &de.type->name(); }
         catch (const std::logic_error&) { continue; }
      }
      if (nref(d.name()) != nref(*want_name)) return Verdict::fail(tag + "/decl-name", "member " + std::to_string(i) + " does not report its name");
      // singleton sets
      if (nref(d.master()) != nref(d)) return Verdict::fail(tag + "/master", "master() of a unique declaration is not itself");
      if (d.decl_set().size() != 1 or nref(*d.decl_set().position(0)) != nref(d)) return Verdict::fail(tag + "/decl-set", "decl_set() of a unique declaration is not the singleton of itself");
      // position equals index
      int64_t pos = -1;
      if (auto p = ipr::util::view<ipr::Parameter>(d)) pos = int64_t(p->position());
      else if (auto e = ipr::util::view<ipr::Enumerator>(d)) pos = int64_t(e->position());
      else if (auto b = ipr::util::view<ipr::Base_type>(d)) pos = int64_t(b->position());
      else pos = int64_t(i);
      if (pos != int64_t(i)) return Verdict::fail(tag + "/position", "member " + std::to_string(i) + " reports position " + std::to_string((long long) pos));
      // lookup by name finds the member, selection by its type returns it
      auto ovl = sc[*want_name];
      if (not ovl.is_valid()) return Verdict::fail(tag + "/lookup-miss", "lookup by name does not find member " + std::to_string(i));
      // Sets are singletons here: a name used by several members (two bases whose types carry the same name) is
      // answered by the first of them, and only that one is asserted to be selected by its type.
      bool first_with_name = true;
      for (size_t j = 0; j < i and first_with_name; ++j) {
         const ipr::Name* other = h.decls[j].name;
         if (h.kind == H_bases) {
            try { other = &h.decls[j].type->name(); }
            catch (const std::logic_error&) { other = nullptr; }
         }
         if (other != nullptr and nref(*other) == nref(*want_name)) first_with_name = false;
      }
      if (not first_with_name) continue;
      auto sel = ovl.get()[*de.type];
      if (not sel.is_valid() or nref(sel.get()) != nref(d)) return Verdict::fail(tag + "/select", "selection by the member's type does not return the member");
   }
   return Verdict::ok();
}

// ---------------------------------------------------------------------------------
// C12: regions form a tree
// ---------------------------------------------------------------------------------
Verdict World::check_regions()
{
   const std::string tag = prop + "/region";
   for (auto& kv : region_models) {
      const RegionModel& m = kv.second;
      const ipr::Region& r = *m.region;
      Ref enc = ABSENT;
      try { enc = nref(r.enclosing()); }
      catch (const std::logic_error&) { }
      if (m.parent == nullptr) {
         if (not r.global()) return Verdict::fail(tag + "/global-flag", "a unit's global region does not report global()");
         if (enc != ABSENT) return Verdict::fail(tag + "/global-enclosed", "a global region reports an enclosing region");
      } else {
         if (r.global()) return Verdict::fail(tag + "/global-flag", "a non-root region reports global()");
         if (enc != nref(*m.parent))
            return Verdict::fail(tag + "/enclosing", "enclosing() is " + ref_str(enc) + ", the region was created in " + ref_str(nref(*m.parent)));
      }
      // walking outward reaches the unit's global region within the modelled depth
      const ipr::Region* cur = &r;
      int hops = 0;
      while (not cur->global()) {
         if (++hops > m.depth + 1) return Verdict::fail(tag + "/walk", "walking outward did not reach a global region within " + std::to_string(m.depth + 1) + " steps");
         try { cur = &cur->enclosing(); }
         catch (const std::logic_error&) { return Verdict::fail(tag + "/walk", "walking outward hit a region without enclosing region that is not global"); }
      }
      if (hops != m.depth) return Verdict::fail(tag + "/depth", "reached a global region after " + std::to_string(hops) + " steps, expected " + std::to_string(m.depth));
      if (m.unit >= 0 and size_t(m.unit) < units.size() and nref(*cur) != nref(*units.v[size_t(m.unit)]->global_region()))
         return Verdict::fail(tag + "/root", "walking outward ends at a global region of another unit");
      // owner
      auto ow = r.owner();
      Ref got = ow.is_valid() ? nref(ow.get()) : nullptr;
      if (m.owner != ABSENT and got != m.owner)
         return Verdict::fail(tag + "/owner", "owner() is " + ref_str(got) + ", expected " + ref_str(m.owner));
   }
   return Verdict::ok();
}

// ---------------------------------------------------------------------------------
// C16: substitutions
// ---------------------------------------------------------------------------------
Verdict World::check_substitutions()
{
   const std::string tag = prop + "/substitution";
   for (auto& kv : elem_subst_models) {
      const ipr::Substitution& s = *kv.first;
      for (auto p : params.v) {
         const ipr::Expr& got = s[*p];
         const ipr::Node& want = p == kv.second.first ? static_cast<const ipr::Node&>(*kv.second.second) : static_cast<const ipr::Node&>(*p);
         if (nref(got) != nref(want))
            return Verdict::fail(tag + (p == kv.second.first ? "/elementary-in-domain" : "/elementary-outside-domain"),
                                 std::string("elementary substitution applied to ") + (p == kv.second.first ? "its own parameter" : "another parameter") +
                                 " yields " + ref_str(nref(got)) + ", expected " + ref_str(nref(want)));
      }
   }
   for (auto& kv : subst_models) {
      const ipr::Substitution& s = *kv.first;
      for (auto p : params.v) {
         const ipr::Expr& got = s[*p];
         auto it = kv.second.find(p);
         const ipr::Node& want = it != kv.second.end() ? static_cast<const ipr::Node&>(*it->second) : static_cast<const ipr::Node&>(*p);
         if (nref(got) != nref(want))
            return Verdict::fail(tag + (it != kv.second.end() ? "/general-in-domain" : "/general-outside-domain"),
                                 "general substitution yields " + ref_str(nref(got)) + ", expected " + ref_str(nref(want)));
      }
   }
   return Verdict::ok();
}

Verdict World::check_identifier_uniqueness()
{
   if (failed()) return verdict;
   return Verdict::ok();
}

// ---------------------------------------------------------------------------------
// digest of the observable graph with addresses replaced by first-occurrence numbers
// ---------------------------------------------------------------------------------
double World::print_weight(Ref r)
{
   // links a printer never follows downwards (they point outwards or sideways)
   static const char* const outward[] = { "enclosing", "owner", "home_region", "lexical_region", "master", "parent_module", "membership",
                                          "primary_template", "definition", "specializations", "decl_set" };
   // links through which a declaration is printed in full; through any other link it is printed by name
   static const char* const declaring[] = { "body", "elements", "members", "handlers", "bases", "exception", "parameters", "bindings" };
   auto is_decl = [](int cat) {
      using ipr::Category_code;
      switch (Category_code(cat)) {
      case Category_code::Alias: case Category_code::Base_type: case Category_code::Enumerator: case Category_code::Field: case Category_code::Bitfield:
      case Category_code::Fundecl: case Category_code::Template: case Category_code::Parameter: case Category_code::Typedecl: case Category_code::Var:
      case Category_code::EH_parameter: return true;
      default: return false;
      }
   };
   // a region stands for the declarations of its scope
   std::unordered_map<Ref, const ScopeModel*> by_region;
   for (auto& kv : scopes) if (kv.second.region != nullptr) by_region[nref(*kv.second.region)] = &kv.second;
   struct Walk {
      World& w;
      std::unordered_map<Ref, const ScopeModel*>& by_region;
      decltype(is_decl)& decl_cat;
      static bool among(const char* key, const char* const* set, size_t n) { for (size_t i = 0; i < n; ++i) if (std::strcmp(set[i], key) == 0) return true; return false; }
      // the node an edge leads to, or null when the printer does not descend through it
      Ref target(const char* key, Ref to, bool& by_name)
      {
         by_name = false;
         if (to == nullptr or to == ABSENT or uintptr_t(to) < 0x1000) return nullptr;
         if (among(key, outward, sizeof outward / sizeof outward[0])) return nullptr;
         if (from_block and std::strcmp(key, "region") == 0) return nullptr;          // a block prints its statements, not the declarations of its region
         auto it = w.recs.find(to);
         if (it == w.recs.end()) return to;
         const bool declaring_link = among(key, declaring, sizeof declaring / sizeof declaring[0]);
         if (not declaring_link and not from_stmt and decl_cat(it->second.exp.cat)) { by_name = true; return nullptr; }      // in a statement position a declaration is printed in full
         if (World::is_udt_category(it->second.exp.cat) and std::strcmp(key, "initializer") != 0 and std::strcmp(key, "global_namespace") != 0) { by_name = true; return nullptr; }
         // everything else the harness links is older than what refers to it; a younger target is reached some other way
         if (not declaring_link and std::strcmp(key, "region") != 0 and std::strcmp(key, "initializer") != 0 and std::strcmp(key, "global_namespace") != 0 and from_seq != 0 and it->second.seq >= from_seq) return nullptr;
         return to;
      }
      uint64_t from_seq = 0;
      bool from_stmt = false, from_block = false;
      void each_edge(Ref r, const Rec& rc, const std::function<void(Ref, bool)>& f)
      {
         std::vector<std::pair<Ref, bool>> out;
         bool by_name;
         from_seq = rc.seq;
         {
            using ipr::Category_code;
            const auto c = Category_code(rc.exp.cat);
            from_block = c == Category_code::Block;
            from_stmt = c == Category_code::If or c == Category_code::Switch or c == Category_code::While or c == Category_code::Do or c == Category_code::For
                     or c == Category_code::For_in or c == Category_code::Labeled_stmt;
         }
         for (auto& sl : rc.exp.slots) if (sl.is_ref) { Ref t = target(sl.key, sl.ref, by_name); out.push_back({ t, by_name }); }
         for (auto& sq : rc.exp.seqs) for (Ref e : sq.elems) { Ref t = target(sq.key, e, by_name); out.push_back({ t, by_name }); }
         if (auto rs = by_region.find(r); rs != by_region.end()) for (auto& de : rs->second->decls) out.push_back({ nref(*de.decl), false });
         for (auto& e : out) f(e.first, e.second);
      }
      // phase 1: one depth-first forest over everything modelled; edges to a node still on the stack are the back edges
      std::set<Ref> done, on_stack;
      void mark(Ref r)
      {
         auto it = w.recs.find(r);
         if (it == w.recs.end() or not done.insert(r).second) return;
         on_stack.insert(r);
         each_edge(r, it->second, [&](Ref t, bool) {
            if (t == nullptr) return;
            if (on_stack.count(t)) w.weight_back_edges.insert({ r, t });
            else mark(t);
         });
         on_stack.erase(r);
      }
      // phase 2: sizes over the graph without its back edges (acyclic, so every sum is final and can be remembered)
      double go(Ref r)
      {
         if (r == nullptr or r == ABSENT or uintptr_t(r) < 0x1000) return 0;
         auto m = w.weight_memo.find(r);
         if (m != w.weight_memo.end()) return m->second;
         if (auto sp = w.spelling_of_string.find(r); sp != w.spelling_of_string.end()) return 1 + double(sp->second.size()) / 8;   // a word costs its length
         double own = 1;
         if (auto ws = w.word_size.find(r); ws != w.word_size.end()) own += double(ws->second) / 8;
         auto it = w.recs.find(r);
         if (it == w.recs.end()) return own;
         if (it->second.exp.cat == int(ipr::Category_code::String))
            if (const Slot* sz = it->second.exp.find("size"); sz != nullptr and not sz->is_ref and sz->val > 0) own += double(sz->val) / 8;
         double sum = own;
         each_edge(r, it->second, [&](Ref t, bool by_name) {
            if (by_name) sum += 2;
            else if (t != nullptr and not w.weight_back_edges.count({ r, t })) sum += go(t);
         });
         if (sum > 1e12) sum = 1e12;
         w.weight_memo[r] = sum;
         return sum;
      }
   } walk{ *this, by_region, is_decl, 0, { }, { } };
   if (not weight_edges_marked) {
      weight_edges_marked = true;
      for (Ref o : order) walk.mark(o);
   }
   if (explain_weights) {
      // the estimate's tree under r, for inspecting a replay
      std::function<void(Ref, int)> show = [&](Ref x, int d) {
         auto it = recs.find(x);
         if (it == recs.end() or d > 8) return;
         bool bn;
         std::vector<std::tuple<const char*, Ref, Ref, bool>> es;
         for (auto& sl : it->second.exp.slots) if (sl.is_ref) { walk.from_seq = it->second.seq; Ref t = walk.target(sl.key, sl.ref, bn); es.push_back({ sl.key, sl.ref, t, bn }); }
         for (auto& sq : it->second.exp.seqs) for (Ref e : sq.elems) { walk.from_seq = it->second.seq; Ref t = walk.target(sq.key, e, bn); es.push_back({ sq.key, e, t, bn }); }
         for (auto& [k, raw, t, b] : es) {
            auto rr = recs.find(raw);
            const double wt = t ? walk.go(t) : 0.0;
            std::printf("WEIGHT %*s%s.%s -> %s %s w=%.0f%s\n", d * 2, "", category_name(it->second.exp.cat), k, rr != recs.end() ? category_name(rr->second.exp.cat) : "?",
                        t ? "follow" : (b ? "by-name" : "skip"), wt, weight_back_edges.count({ x, raw }) ? " BACK" : "");
            if (t and wt > 200) show(t, d + 1);
         }
      };
      show(r, 0);
   }
   return walk.go(r);
}

uint64_t World::graph_digest()
{
   sim::Digest d;
   std::unordered_map<Ref, uint64_t> ordinal;
   auto ord = [&](Ref r) -> uint64_t {
      if (r == nullptr) return 0;
      if (r == ABSENT) return 1;
      if (sim::heap::is_static(r)) return 0x5747000000000000ull ^ uint64_t(reinterpret_cast<uintptr_t>(r) - reinterpret_cast<uintptr_t>(&__executable_start));   // static: same in every Lexicon
      auto it = ordinal.find(r);
      if (it != ordinal.end()) return it->second;
      uint64_t k = 100 + ordinal.size();
      ordinal.emplace(r, k);
      return k;
   };
   for (Ref r : order) ord(r);
   for (Ref r : order) {
      const Rec& rc = recs[r];
      Reading a = rc.observe(r, ObsOptions{ });
      d.u64(uint64_t(int64_t(a.cat)));
      for (auto& sl : a.slots) {
         d.str(sl.key);
         d.u64(sl.is_ref ? ord(sl.ref) : uint64_t(sl.val));
      }
      for (auto& sq : a.seqs) {
         d.str(sq.key);
         d.u64(sq.elems.size());
         for (auto e : sq.elems) d.u64(uintptr_t(e) < 0x1000 ? uint64_t(uintptr_t(e)) : ord(e));
      }
      if (not a.problem.empty()) d.str(a.problem.c_str());
   }
   return d.value();
}

// ---------------------------------------------------------------------------------
// expectations for the generic families
// ---------------------------------------------------------------------------------
Reading expect_unary(ipr::Category_code c, const ipr::Node& operand, const ipr::Type* type, bool classic)
{
   Reading e{ int(c) };
   e.r("operand", nref(operand));
   e.r("type", type ? nref(*type) : ABSENT);
   if (classic) e.r("implementation", nullptr);
   return e;
}

Reading expect_binary(ipr::Category_code c, const ipr::Node& a, const ipr::Node& b, const ipr::Type* type, bool classic)
{
   Reading e{ int(c) };
   e.r("first", nref(a));
   e.r("second", nref(b));
   e.r("type", type ? nref(*type) : ABSENT);
   if (classic) e.r("implementation", nullptr);
   return e;
}

void expect_composite(Reading& e, World& w)
{
   const ipr::Lexicon& L = *w.lex;
   e.r("type", nref(L.typename_type()));
   e.r("transfer.linkage", nref(L.cxx_linkage().language().what()));
   e.r("transfer.convention", nref(ipr::String::empty_string()));
}

void expect_stmt_defaults(Reading& e)
{
   e.s("unit_location.line", 0).s("unit_location.column", 0).s("unit_location.unit", 0);
   e.s("source_location.line", 0).s("source_location.column", 0).s("source_location.file", 0);
   e.q("annotation", { }).q("attributes", { });
}

// VERIF_TRACE=1: one line per operation (and nested prerequisite) with the node it returned; for inspecting a replay.
void World::trace_op(const char* what, const Op& op, Ref r)
{
   // VERIF_TRACE names a file (appended to); the process's stderr is rewound by breadcrumbs, so it is not used
   static std::FILE* const out = [] { const char* f = std::getenv("VERIF_TRACE"); return f != nullptr ? std::fopen(f, "a") : nullptr; }();
   if (out == nullptr) return;
   const int code = ((op.code % OP_COUNT) + OP_COUNT) % OP_COUNT;
   Rec* rc = r != nullptr ? rec(r) : nullptr;
   std::fprintf(out, "TRACE step=%zu %s %s(%lld,%lld,%lld,%lld,%lld,%lld) -> %s seq=%lld\n", size_t(step), what, op_name(code),
                (long long) op.a[0], (long long) op.a[1], (long long) op.a[2], (long long) op.a[3], (long long) op.a[4], (long long) op.a[5],
                ref_str(r).c_str(), rc ? (long long) rc->seq : -1LL);
   std::fflush(out);
}

Ref World::dispatch(const Op& op)
{
   const int code = ((op.code % OP_COUNT) + OP_COUNT) % OP_COUNT;
   if (code < OP_make_phantom) return code < OP_get_string ? apply_exprs(op) : apply_names_types(op);
   if (code < OP_make_break) return apply_exprs(op);
   if (code < OP_new_unit) return apply_stmts_decls(op);
   if (code > OP_noise_free) return apply_macros(op);
   return apply_forms_misc(op);
}

Ref World::nested(const Op& op)
{
   const int saved = current_op;
   current_op = ((op.code % OP_COUNT) + OP_COUNT) % OP_COUNT;
   ++op_counts[size_t(current_op)];
   Ref r = dispatch(op);
   trace_op("  nested", op, r);
   current_op = saved;
   return r;
}

Ref World::apply(const Op& op)
{
   ++step;
   ++ctx.steps;
   sim::heap::set_owner(opt.owner);
   sim::heap::begin_op(step);
   const int code = ((op.code % OP_COUNT) + OP_COUNT) % OP_COUNT;
   current_op = code;
   ++op_counts[size_t(code)];
   if (step_codes.size() <= step) step_codes.resize(step + 1, -1);
   step_codes[step] = code;
   Ref r = nullptr;
   last_op_faulted = false;
   touching = nullptr;
   if (op.fault > 0) { ++faults_configured; sim::heap::arm_fault(uint32_t(op.fault)); }
   try {
      r = dispatch(op);
      trace_op("op", op, r);
   }
   catch (const std::bad_alloc&) {
      sim::g_sut_depth = 0;
      sim::heap::arm_fault(0);
      if (not sim::heap::fault_fired()) throw;       // arena exhausted or a genuine failure: the driver decides
      // Injected allocation failure: the exception that escapes is std::bad_alloc (good).  The
      // container the operation was mutating is no longer held to the model (the library
      // promises nothing about it); everything returned earlier still is.
      last_op_faulted = true;
      ++faults_fired;
      if (touching != nullptr) { tainted.insert(touching); ++taint_count[touching]; }
      ctx.event("%s -> bad_alloc (injected)", op_name(code));
      if (opt.retry_after_fault and (uint64_t(op.a[4]) + uint64_t(op.fault)) % 3 != 0) {
         // the client asks for the same thing again (two times in three); no failure is injected this time
         ++retries;
         sim::heap::begin_op(step);
         touching = nullptr;
         try {
            r = dispatch(op);
            trace_op("retry", op, r);
         }
         catch (const std::bad_alloc&) { sim::g_sut_depth = 0; throw; }
         ctx.event("%s retried", op_name(code));
         return r;
      }
      return nullptr;
   }
   sim::heap::arm_fault(0);
   return r;
}

}

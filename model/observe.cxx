// Observer implementation: every documented accessor of every node category, each call
// individually guarded: an exception derived from std::logic_error is a legal answer
// ("refused"), anything else is fatal.  Results are touched (category / first byte read) so
// that dangling or null references trap under the sanitizers.
#include "observe.hpp"
#include <ipr/interface>
#include <ipr/traversal>
#include <stdexcept>
#include <typeinfo>

namespace model {

ObsCounters& obs_counters()
{
   static thread_local ObsCounters c;
   return c;
}

namespace {
using namespace ipr;

thread_local volatile int g_sink;

inline void touch(const ipr::Node& n) { g_sink = int(n.category); }
template<typename T> inline void touch_bytes(const T& t) { g_sink = *reinterpret_cast<const volatile unsigned char*>(&t); }

struct Obs {
   Reading rd;
   const ObsOptions& opt;
   explicit Obs(const ObsOptions& o) : opt(o) { }

   void fatal(const char* key, const std::exception& e)
   {
      if (rd.fatal.empty()) rd.fatal = std::string(key) + ": " + typeid(e).name() + ": " + e.what();
   }
   void problem(std::string p) { if (rd.problem.empty()) rd.problem = std::move(p); }

   // node-returning accessor
   template<class F> Ref node(const char* key, F f)
   {
      ++obs_counters().accessor_calls;
      Ref r = ABSENT;
      try { const ipr::Node& n = f(); touch(n); r = nref(n); }
      catch (const std::logic_error&) { ++obs_counters().refused; }
      catch (const std::exception& e) { fatal(key, e); }
      rd.n(key, r);
      return r;
   }
   // Optional<T>-returning accessor
   template<class F> Ref opt_node(const char* key, F f)
   {
      ++obs_counters().accessor_calls;
      Ref r = ABSENT;
      try {
         auto o = f();
         if (o.is_valid()) { const ipr::Node& n = o.get(); touch(n); r = nref(n); }
         else {
            r = nullptr;
            // an empty Optional refuses get() with logic_error
            try { (void) o.get(); problem(std::string(key) + ": get() on an empty Optional returned"); }
            catch (const std::logic_error&) { }
         }
         if (bool(o) != o.is_valid()) problem(std::string(key) + ": Optional bool conversion disagrees with is_valid()");
      }
      catch (const std::logic_error&) { ++obs_counters().refused; }
      catch (const std::exception& e) { fatal(key, e); }
      rd.n(key, r);
      return r;
   }
   // accessor returning a reference to a non-node object (identity = address of the interface sub-object)
   template<class F> Ref obj(const char* key, F f)
   {
      ++obs_counters().accessor_calls;
      Ref r = ABSENT;
      try { auto& o = f(); touch_bytes(o); r = &o; }
      catch (const std::logic_error&) { ++obs_counters().refused; }
      catch (const std::exception& e) { fatal(key, e); }
      rd.r(key, r);
      return r;
   }
   template<class F> Ref opt_obj(const char* key, F f)
   {
      ++obs_counters().accessor_calls;
      Ref r = ABSENT;
      try { auto o = f(); if (o.is_valid()) { auto& x = o.get(); touch_bytes(x); r = &x; } else r = nullptr; }
      catch (const std::logic_error&) { ++obs_counters().refused; }
      catch (const std::exception& e) { fatal(key, e); }
      rd.r(key, r);
      return r;
   }
   // scalar accessor
   template<class F> int64_t val(const char* key, F f)
   {
      ++obs_counters().accessor_calls;
      int64_t v = ABSENT_SCALAR;
      try { v = int64_t(f()); }
      catch (const std::logic_error&) { ++obs_counters().refused; }
      catch (const std::exception& e) { fatal(key, e); }
      rd.s(key, v);
      return v;
   }
   // alias: a named accessor documented to be the same as an operand slot already read
   template<class F> void alias_node(const char* name, Ref primary, F f)
   {
      ++obs_counters().accessor_calls;
      Ref r = ABSENT;
      try { const ipr::Node& n = f(); touch(n); r = nref(n); }
      catch (const std::logic_error&) { ++obs_counters().refused; }
      catch (const std::exception& e) { fatal(name, e); }
      if (r != primary) problem(std::string(name) + "() = " + ref_str(r) + " disagrees with the operand it is documented to alias (" + ref_str(primary) + ")");
   }

   // sequence accessor; conv maps an element to the refs recorded for it
   template<class F, class Conv> void seq(const char* key, F f, Conv conv, bool nodes = false)
   {
      ++obs_counters().accessor_calls;
      SeqSlot slot { key, { }, false, nodes };
      try {
         const auto& s = f();
         ++obs_counters().sequences_walked;
         const auto n = s.size();
         if (s.empty() != (n == 0)) problem(std::string(key) + ": empty() disagrees with size()");
         if (n > 10'000'000) { problem(std::string(key) + ": absurd size"); rd.seqs.push_back(slot); return; }
         std::vector<Ref> by_iter;
         size_t visited = 0;
         auto iterate = [&] {
            for (auto it = s.begin(); it != s.end(); ++it) {
               if (visited > n) break;
               ++visited;
               conv(*it, by_iter);
            }
         };
         if (opt.order % 3 == 0 or n == 0) {
            iterate();
            for (size_t i = 0; i < n; ++i) { auto p = s.position(i); conv(*p, slot.elems); }
         } else if (opt.order % 3 == 1) {
            // the last element first, then downwards
            std::vector<Ref> rev;
            for (size_t i = n; i-- > 0; ) { auto p = s.position(i); std::vector<Ref> one; conv(*p, one); rev.insert(rev.begin(), one.begin(), one.end()); }
            slot.elems = rev;
            iterate();
         } else {
            // from the end: the element before end(), then upwards by index, then by iteration
            std::vector<Ref> last_by_iter, last_by_index;
            { auto it = s.end(); --it; conv(*it, last_by_iter); }
            { auto p = s.position(size_t(n) - 1); conv(*p, last_by_index); }
            if (last_by_iter != last_by_index) problem(std::string(key) + ": *--end() disagrees with the element at size()-1");
            for (size_t i = 0; i < n; ++i) { auto p = s.position(i); conv(*p, slot.elems); }
            iterate();
         }
         if (visited != n) problem(std::string(key) + ": iteration visited " + std::to_string(visited) + " elements, size() is " + std::to_string(n));
         if (by_iter != slot.elems) problem(std::string(key) + ": iteration disagrees with positional access");
         if (opt.probe_bounds) {
            const size_t probes[] = { size_t(n), size_t(n) + 1, size_t(n) + 2, SIZE_MAX, SIZE_MAX / 2 };
            for (size_t i : probes) {
               ++obs_counters().out_of_range_probes;
               try {
                  auto p = s.position(i);
                  std::vector<Ref> sink;
                  conv(*p, sink);
                  problem(std::string(key) + ": element at index " + (i > n + 2 ? std::string("SIZE_MAX-ish") : std::to_string(i)) +
                          " (size " + std::to_string(n) + ") was returned instead of being refused");
               }
               catch (const std::logic_error&) { ++obs_counters().refused; }
               catch (const std::exception& e) { fatal(key, e); }
            }
         }
      }
      catch (const std::logic_error&) { ++obs_counters().refused; slot.refused = true; slot.elems.clear(); }
      catch (const std::exception& e) { fatal(key, e); }
      rd.seqs.push_back(std::move(slot));
   }

   template<class F> void node_seq(const char* key, F f)
   {
      seq(key, f, [](const auto& e, std::vector<Ref>& out) { touch(e); out.push_back(nref(e)); }, true);
   }
   template<class F> void obj_seq(const char* key, F f)
   {
      seq(key, f, [](const auto& e, std::vector<Ref>& out) { touch_bytes(e); out.push_back(&e); });
   }
};

constexpr const char* cat_names[] = {
#define CATNAME(x) #x
   "Unknown", "Annotation", "Region", "Comment", "String", "Parameter_list", "Overload", "Array", "Class", "Decltype", "As_type", "Enum",
   "Tor", "Function", "Namespace", "Pointer", "Ptr_to_member", "Product", "Qualified", "Reference", "Rvalue_reference", "Sum", "Forall",
   "Union", "Auto", "Closure", "Identifier", "Operator", "Suffix", "Conversion", "Template_id", "Type_id", "Ctor_name", "Dtor_name",
   "Guide_name", "Phantom", "Eclipsis", "Lambda", "Requires", "Symbol", "Address", "Array_delete", "Asm", "Complement", "Delete",
   "Demotion", "Deref", "Expr_list", "Alignof", "Sizeof", "Typeid", "Id_expr", "Label", "Materialization", "Not", "Enclosure",
   "Post_decrement", "Post_increment", "Pre_decrement", "Pre_increment", "Promotion", "Read", "Throw", "Unary_minus", "Unary_plus",
   "Expansion", "Noexcept", "Args_cardinality", "Restriction", "Rewrite", "Scope_ref", "Plus", "Plus_assign", "And", "Array_ref", "Arrow",
   "Arrow_star", "Assign", "Bitand", "Bitand_assign", "Bitor", "Bitor_assign", "Bitxor", "Bitxor_assign", "Call", "Cast", "Coercion",
   "Comma", "Const_cast", "Construction", "Div", "Div_assign", "Dot", "Dot_star", "Dynamic_cast", "Equal", "Greater", "Greater_equal",
   "Less", "Less_equal", "Literal", "Lshift", "Lshift_assign", "Mapping", "Member_init", "Modulo", "Modulo_assign", "Mul", "Mul_assign",
   "Narrow", "Not_equal", "Or", "Pretend", "Qualification", "Reinterpret_cast", "Rshift", "Rshift_assign", "Static_cast", "Widen", "Minus",
   "Minus_assign", "Binary_fold", "Where", "Static_assert", "Instantiation", "New", "Conditional", "Scope", "Deduction_guide",
   "Specifiers_spread", "Structured_binding", "Using_declaration", "Using_directive", "Phased_evaluation", "Pragma", "Block", "Break",
   "Continue", "Ctor_body", "Do", "Expr_stmt", "For", "For_in", "Goto", "Handler", "If", "Labeled_stmt", "Return", "Switch", "While",
   "Alias", "Base_type", "Enumerator", "Field", "Bitfield", "Fundecl", "Template", "Parameter", "Typedecl", "Var", "EH_parameter", "Unit",
#undef CATNAME
};
static_assert(sizeof cat_names / sizeof cat_names[0] == size_t(Category_code::last_code_cat));
constexpr bool same_name(const char* a, const char* b)
{
   while (*a and *a == *b) { ++a; ++b; }
   return *a == *b;
}
#define CHECK_CAT(K) static_assert(same_name(cat_names[int(Category_code::K)], #K), "category table out of step with <ipr/node-category>")
CHECK_CAT(Unknown); CHECK_CAT(String); CHECK_CAT(Closure); CHECK_CAT(Guide_name); CHECK_CAT(Symbol); CHECK_CAT(Restriction);
CHECK_CAT(Rshift); CHECK_CAT(Minus_assign); CHECK_CAT(Conditional); CHECK_CAT(Scope); CHECK_CAT(Pragma); CHECK_CAT(Expr_stmt);
CHECK_CAT(While); CHECK_CAT(Alias); CHECK_CAT(EH_parameter); CHECK_CAT(Unit);
#undef CHECK_CAT

struct V : ipr::Visitor {
   Obs& o;
   explicit V(Obs& x) : o(x) { }

   // ---- helpers ------------------------------------------------------------------
   template<class X> void type_slot(const X& x) { o.node("type", [&]() -> const Node& { return x.type(); }); }

   void transfer_slots(const ipr::Type& t)
   {
      Ref l = o.node("transfer.linkage", [&]() -> const Node& { return t.transfer().linkage().language().what(); });
      o.node("transfer.convention", [&]() -> const Node& { return t.transfer().convention().name().what(); });
      // derived: Type::linkage() == transfer().linkage()
      o.alias_node("linkage", l, [&]() -> const Node& { return t.linkage().language().what(); });
   }

   // A composite type's name is the type-id of the type itself.
   void composite_type(const ipr::Type& t)
   {
      type_slot(t);
      transfer_slots(t);
      Ref n = o.node("name", [&]() -> const Node& { return t.name(); });
      if (n != ABSENT) {
         try {
            if (auto tid = util::view<Type_id>(t.name())) {
               if (nref(tid->type_expr()) != nref(t)) o.problem("name() of a composite type is a Type_id of another type");
               if (nref(tid->operand()) != nref(tid->type_expr())) o.problem("Type_id::type_expr() disagrees with operand()");
            }
         }
         catch (const std::logic_error&) { }
      }
   }

   template<class X> void unary(const X& x)
   {
      o.node("operand", [&]() -> const Node& { return x.operand(); });
      type_slot(x);
   }
   template<class X> void classic(const X& x)
   {
      o.opt_node("implementation", [&] { return x.implementation(); });
   }
   template<class X> void binary(const X& x)
   {
      o.node("first", [&]() -> const Node& { return x.first(); });
      o.node("second", [&]() -> const Node& { return x.second(); });
      type_slot(x);
   }

   void stmt_common(const ipr::Stmt& s)
   {
      o.val("unit_location.line", [&] { return util::rep(s.unit_location().line); });
      o.val("unit_location.column", [&] { return util::rep(s.unit_location().column); });
      o.val("unit_location.unit", [&] { return util::rep(s.unit_location().unit); });
      o.val("source_location.line", [&] { return util::rep(s.source_location().line); });
      o.val("source_location.column", [&] { return util::rep(s.source_location().column); });
      o.val("source_location.file", [&] { return util::rep(s.source_location().file); });
      o.node_seq("annotation", [&]() -> const Sequence<Annotation>& { return s.annotation(); });
      o.obj_seq("attributes", [&]() -> const Sequence<Attribute>& { return s.attributes(); });
   }

   void decl_common(const ipr::Decl& d)
   {
      stmt_common(d);
      type_slot(d);
      o.val("specifiers", [&] { return util::rep(d.specifiers()); });
      o.node("name", [&]() -> const Node& { return d.name(); });
      o.node("home_region", [&]() -> const Node& { return d.home_region(); });
      o.node("lexical_region", [&]() -> const Node& { return d.lexical_region(); });
      o.opt_node("initializer", [&] { return d.initializer(); });
      o.node("master", [&]() -> const Node& { return d.master(); });
      o.node("linkage", [&]() -> const Node& { return d.linkage().language().what(); });
      o.node_seq("decl_set", [&]() -> const Sequence<Decl>& { return d.decl_set(); });
      // a set lists each declaration once (by observation: holds whatever the model knows about the scope)
      if (not o.rd.seqs.empty() and std::strcmp(o.rd.seqs.back().key, "decl_set") == 0 and not o.rd.seqs.back().refused) {
         const auto& el = o.rd.seqs.back().elems;
         for (size_t i = 0; i < el.size(); ++i)
            for (size_t j = i + 1; j < el.size(); ++j)
               if (el[i] == el[j]) { o.problem("decl_set() lists one declaration twice (positions " + std::to_string(i) + " and " + std::to_string(j) + ")"); i = el.size(); break; }
      }
   }

   // ---- abstract fall-backs -------------------------------------------------------
   void visit(const Node& n) override { o.problem(std::string("observer has no reader for category ") + category_name(int(n.category))); }
   void visit(const Expr& n) override { visit(as<Node>(n)); }
   void visit(const Name& n) override { visit(as<Node>(n)); }
   void visit(const Type& n) override { visit(as<Node>(n)); }
   void visit(const Directive& n) override { visit(as<Node>(n)); }
   void visit(const Stmt& n) override { visit(as<Node>(n)); }
   void visit(const Decl& n) override { visit(as<Node>(n)); }

   // ---- misc nodes ----------------------------------------------------------------
   void visit(const Annotation& x) override
   {
      Ref a = o.node("first", [&]() -> const Node& { return x.first(); });
      Ref b = o.node("second", [&]() -> const Node& { return x.second(); });
      o.alias_node("name", a, [&]() -> const Node& { return x.name(); });
      o.alias_node("value", b, [&]() -> const Node& { return x.value(); });
   }
   void visit(const Region& x) override
   {
      o.node("enclosing", [&]() -> const Node& { return x.enclosing(); });
      o.opt_node("owner", [&] { return x.owner(); });
      o.node("bindings", [&]() -> const Node& { return x.bindings(); });
      o.val("global", [&] { return x.global(); });
      o.node_seq("body", [&]() -> const Sequence<Expr>& { return x.body(); });
      o.val("span.first.line", [&] { return util::rep(x.span().first.line); });
      o.val("span.second.line", [&] { return util::rep(x.span().second.line); });
   }
   void visit(const Comment& x) override
   {
      Ref a = o.node("operand", [&]() -> const Node& { return x.operand(); });
      o.alias_node("text", a, [&]() -> const Node& { return x.text(); });
   }
   void visit(const String& x) override
   {
      o.val("size", [&] { return x.size(); });
      o.val("bytes", [&] {
         auto w = x.characters();
         if (size_t(x.end() - x.begin()) != w.size()) return int64_t(-1);
         return bytes_hash(w.data(), w.size());
      });
   }

   // ---- names ---------------------------------------------------------------------
#define UNARY_NAME(K, ALIAS) \
   void visit(const K& x) override \
   { \
      Ref a = o.node("operand", [&]() -> const Node& { return x.operand(); }); \
      o.alias_node(#ALIAS, a, [&]() -> const Node& { return x.ALIAS(); }); \
   }
   UNARY_NAME(Identifier, string)
   UNARY_NAME(Suffix, name)
   UNARY_NAME(Operator, opname)
   UNARY_NAME(Conversion, target)
   UNARY_NAME(Ctor_name, object_type)
   UNARY_NAME(Dtor_name, object_type)
   UNARY_NAME(Guide_name, mapping_decl)
   UNARY_NAME(Type_id, type_expr)
#undef UNARY_NAME
   void visit(const Template_id& x) override
   {
      Ref a = o.node("first", [&]() -> const Node& { return x.first(); });
      Ref b = o.node("second", [&]() -> const Node& { return x.second(); });
      o.alias_node("template_name", a, [&]() -> const Node& { return x.template_name(); });
      o.alias_node("args", b, [&]() -> const Node& { return x.args(); });
   }

   // ---- types ---------------------------------------------------------------------
   void visit(const Array& x) override
   {
      Ref a = o.node("first", [&]() -> const Node& { return x.first(); });
      Ref b = o.node("second", [&]() -> const Node& { return x.second(); });
      o.alias_node("element_type", a, [&]() -> const Node& { return x.element_type(); });
      o.alias_node("bound", b, [&]() -> const Node& { return x.bound(); });
      composite_type(x);
   }
   void visit(const As_type& x) override
   {
      Ref a = o.node("operand", [&]() -> const Node& { return x.operand(); });
      o.alias_node("expr", a, [&]() -> const Node& { return x.expr(); });
      if (a == nref(x)) {
         // built-in: names itself with an identifier
         type_slot(x);
         transfer_slots(x);
         o.node("name", [&]() -> const Node& { return x.name(); });
      } else
         composite_type(x);
   }
   void visit(const Decltype& x) override
   {
      Ref a = o.node("operand", [&]() -> const Node& { return x.operand(); });
      o.alias_node("expr", a, [&]() -> const Node& { return x.expr(); });
      composite_type(x);
   }
   void visit(const Tor& x) override
   {
      Ref a = o.node("first", [&]() -> const Node& { return x.first(); });
      Ref b = o.node("second", [&]() -> const Node& { return x.second(); });
      o.alias_node("source", a, [&]() -> const Node& { return x.source(); });
      o.alias_node("throws", b, [&]() -> const Node& { return x.throws(); });
      composite_type(x);
   }
   void visit(const Function& x) override
   {
      Ref a = o.node("first", [&]() -> const Node& { return x.first(); });
      Ref b = o.node("second", [&]() -> const Node& { return x.second(); });
      Ref c = o.node("third", [&]() -> const Node& { return x.third(); });
      o.alias_node("source", a, [&]() -> const Node& { return x.source(); });
      o.alias_node("target", b, [&]() -> const Node& { return x.target(); });
      o.alias_node("throws", c, [&]() -> const Node& { return x.throws(); });
      composite_type(x);
   }
#define UNARY_TYPE(K, ALIAS) \
   void visit(const K& x) override \
   { \
      Ref a = o.node("operand", [&]() -> const Node& { return x.operand(); }); \
      o.alias_node(#ALIAS, a, [&]() -> const Node& { return x.ALIAS(); }); \
      composite_type(x); \
   }
   UNARY_TYPE(Pointer, points_to)
   UNARY_TYPE(Reference, refers_to)
   UNARY_TYPE(Rvalue_reference, refers_to)
#undef UNARY_TYPE
   template<class X> void type_seq_node(const X& x)
   {
      o.node_seq("elements", [&]() -> const Sequence<Type>& { return x.operand(); });
      // derived: elements(), size(), operator[]
      try {
         const auto& s = x.elements();
         if (&s != &x.operand()) o.problem("elements() is not operand()");
         if (x.size() != s.size()) o.problem("size() disagrees with elements().size()");
         for (size_t i = 0; i < s.size(); ++i)
            if (nref(x[i]) != nref(*s.position(i))) o.problem("operator[] disagrees with elements()");
      }
      catch (const std::logic_error&) { }
      composite_type(x);
   }
   void visit(const Product& x) override { type_seq_node(x); }
   void visit(const Sum& x) override { type_seq_node(x); }
   void visit(const Ptr_to_member& x) override
   {
      Ref a = o.node("first", [&]() -> const Node& { return x.first(); });
      Ref b = o.node("second", [&]() -> const Node& { return x.second(); });
      o.alias_node("containing_type", a, [&]() -> const Node& { return x.containing_type(); });
      o.alias_node("member_type", b, [&]() -> const Node& { return x.member_type(); });
      composite_type(x);
   }
   void visit(const Qualified& x) override
   {
      int64_t q = o.val("first", [&] { return util::rep(x.first()); });
      Ref b = o.node("second", [&]() -> const Node& { return x.second(); });
      if (int64_t(util::rep(x.qualifiers())) != q) o.problem("qualifiers() disagrees with first()");
      o.alias_node("main_variant", b, [&]() -> const Node& { return x.main_variant(); });
      composite_type(x);
   }
   void visit(const Forall& x) override
   {
      Ref a = o.node("first", [&]() -> const Node& { return x.first(); });
      Ref b = o.node("second", [&]() -> const Node& { return x.second(); });
      o.alias_node("source", a, [&]() -> const Node& { return x.source(); });
      o.alias_node("target", b, [&]() -> const Node& { return x.target(); });
      composite_type(x);
   }
   void visit(const Auto& x) override { composite_type(x); }

   template<class X> void udt(const X& x)
   {
      type_slot(x);
      transfer_slots(x);
      o.node("name", [&]() -> const Node& { return x.name(); });
      Ref r = o.node("region", [&]() -> const Node& { return x.region(); });
      if (r != ABSENT) {
         // derived: scope() == region().bindings()
         try { if (nref(x.scope()) != nref(x.region().bindings())) o.problem("scope() is not region().bindings()"); }
         catch (const std::logic_error&) { }
      }
   }
   template<class X> void udt_decl_members(const X& x)
   {
      o.node_seq("members", [&]() -> const Sequence<Decl>& { return x.members(); });
      try { if (&x.members() != &x.scope().elements()) o.problem("members() is not scope().elements()"); }
      catch (const std::logic_error&) { }
   }
   void visit(const Class& x) override
   {
      udt(x);
      udt_decl_members(x);
      o.node_seq("bases", [&]() -> const Sequence<Base_type>& { return x.bases(); });
   }
   void visit(const Union& x) override { udt(x); udt_decl_members(x); }
   void visit(const Namespace& x) override { udt(x); udt_decl_members(x); }
   void visit(const Enum& x) override
   {
      udt(x);
      o.node_seq("members", [&]() -> const Sequence<Enumerator>& { return x.members(); });
      o.val("kind", [&] { return int(x.kind()); });
      o.opt_node("base", [&] { return x.base(); });
   }
   void visit(const Closure& x) override
   {
      udt(x);
      o.seq("members", [&]() -> const Sequence<Capture>& { return x.members(); },
            [](const Capture& c, std::vector<Ref>& out) { touch(c.entity()); out.push_back(nref(c.entity())); out.push_back(reinterpret_cast<Ref>(uintptr_t(0x100 + int(c.mode())))); });
   }

   // ---- expressions ---------------------------------------------------------------
   void visit(const Phantom& x) override { type_slot(x); }
   void visit(const Eclipsis& x) override { type_slot(x); }
   void visit(const Symbol& x) override
   {
      Ref a = o.node("operand", [&]() -> const Node& { return x.operand(); });
      o.alias_node("name", a, [&]() -> const Node& { return x.name(); });
      type_slot(x);
   }
   void visit(const Label& x) override
   {
      Ref a = o.node("operand", [&]() -> const Node& { return x.operand(); });
      o.alias_node("name", a, [&]() -> const Node& { return x.name(); });
      type_slot(x);
   }
   void visit(const Id_expr& x) override
   {
      Ref a = o.node("operand", [&]() -> const Node& { return x.operand(); });
      o.alias_node("name", a, [&]() -> const Node& { return x.name(); });
      o.opt_node("resolution", [&] { return x.resolution(); });
      type_slot(x);
   }
   void visit(const Asm& x) override
   {
      Ref a = o.node("operand", [&]() -> const Node& { return x.operand(); });
      o.alias_node("text", a, [&]() -> const Node& { return x.text(); });
      type_slot(x);
   }
   void visit(const Enclosure& x) override
   {
      Ref a = o.node("operand", [&]() -> const Node& { return x.operand(); });
      o.alias_node("expr", a, [&]() -> const Node& { return x.expr(); });
      o.val("delimiters", [&] { return int(x.delimiters()); });
      type_slot(x);
   }
   void visit(const Expr_list& x) override
   {
      o.node_seq("elements", [&]() -> const Sequence<Expr>& { return x.operand(); });
      try {
         if (&x.elements() != &x.operand()) o.problem("elements() is not operand()");
         if (x.size() != x.operand().size()) o.problem("size() disagrees with operand().size()");
      }
      catch (const std::logic_error&) { }
      type_slot(x);
   }
   void visit(const Construction& x) override
   {
      Ref a = o.node("operand", [&]() -> const Node& { return x.operand(); });
      o.alias_node("arguments", a, [&]() -> const Node& { return x.arguments(); });
      type_slot(x);
      classic(x);
   }

#define CLASSIC_UNARY(K) void visit(const K& x) override { unary(x); classic(x); }
#define CLASSIC_UNARY_ALIAS(K, ALIAS) \
   void visit(const K& x) override \
   { \
      unary(x); classic(x); \
      o.alias_node(#ALIAS, o.rd.ref_of("operand"), [&]() -> const Node& { return x.ALIAS(); }); \
   }
#define PLAIN_UNARY(K) void visit(const K& x) override { unary(x); }
   CLASSIC_UNARY(Address)
   CLASSIC_UNARY_ALIAS(Array_delete, storage)
   CLASSIC_UNARY(Complement)
   CLASSIC_UNARY_ALIAS(Delete, storage)
   PLAIN_UNARY(Demotion)
   CLASSIC_UNARY(Deref)
   PLAIN_UNARY(Alignof)
   PLAIN_UNARY(Sizeof)
   PLAIN_UNARY(Args_cardinality)
   PLAIN_UNARY(Restriction)
   PLAIN_UNARY(Noexcept)
   PLAIN_UNARY(Typeid)
   PLAIN_UNARY(Materialization)
   CLASSIC_UNARY(Not)
   CLASSIC_UNARY(Post_decrement)
   CLASSIC_UNARY(Post_increment)
   CLASSIC_UNARY(Pre_decrement)
   CLASSIC_UNARY(Pre_increment)
   PLAIN_UNARY(Promotion)
   PLAIN_UNARY(Read)
   CLASSIC_UNARY_ALIAS(Throw, exception)
   CLASSIC_UNARY(Unary_minus)
   CLASSIC_UNARY(Unary_plus)
   CLASSIC_UNARY(Expansion)
#undef CLASSIC_UNARY
#undef CLASSIC_UNARY_ALIAS
#undef PLAIN_UNARY

#define CLASSIC_BINARY(K) void visit(const K& x) override { binary(x); classic(x); }
#define CLASSIC_BINARY_ALIAS(K, A1, A2) \
   void visit(const K& x) override \
   { \
      binary(x); classic(x); \
      o.alias_node(#A1, o.rd.ref_of("first"), [&]() -> const Node& { return x.A1(); }); \
      o.alias_node(#A2, o.rd.ref_of("second"), [&]() -> const Node& { return x.A2(); }); \
   }
#define PLAIN_BINARY_ALIAS(K, A1, A2) \
   void visit(const K& x) override \
   { \
      binary(x); \
      o.alias_node(#A1, o.rd.ref_of("first"), [&]() -> const Node& { return x.A1(); }); \
      o.alias_node(#A2, o.rd.ref_of("second"), [&]() -> const Node& { return x.A2(); }); \
   }
#define CAST_EXPR(K) \
   void visit(const K& x) override \
   { \
      binary(x); classic(x); \
      o.alias_node("expr", o.rd.ref_of("second"), [&]() -> const Node& { return x.expr(); }); \
   }
   PLAIN_BINARY_ALIAS(Rewrite, source, target)
   CLASSIC_BINARY_ALIAS(Scope_ref, scope, member)
   CLASSIC_BINARY(Plus) CLASSIC_BINARY(Plus_assign) CLASSIC_BINARY(And)
   CLASSIC_BINARY_ALIAS(Array_ref, base, member)
   CLASSIC_BINARY_ALIAS(Arrow, base, member)
   CLASSIC_BINARY_ALIAS(Arrow_star, base, member)
   CLASSIC_BINARY(Assign) CLASSIC_BINARY(Bitand) CLASSIC_BINARY(Bitand_assign) CLASSIC_BINARY(Bitor) CLASSIC_BINARY(Bitor_assign)
   CLASSIC_BINARY(Bitxor) CLASSIC_BINARY(Bitxor_assign)
   CLASSIC_BINARY_ALIAS(Call, function, args)
   CAST_EXPR(Cast)
   CLASSIC_BINARY_ALIAS(Coercion, expr, target)
   CLASSIC_BINARY(Comma)
   CAST_EXPR(Const_cast)
   CLASSIC_BINARY(Div) CLASSIC_BINARY(Div_assign)
   CLASSIC_BINARY_ALIAS(Dot, base, member)
   CLASSIC_BINARY_ALIAS(Dot_star, base, member)
   CAST_EXPR(Dynamic_cast)
   CLASSIC_BINARY(Equal) CLASSIC_BINARY(Greater) CLASSIC_BINARY(Greater_equal) CLASSIC_BINARY(Less) CLASSIC_BINARY(Less_equal)
   void visit(const Literal& x) override
   {
      binary(x); classic(x);
      o.alias_node("string", o.rd.ref_of("second"), [&]() -> const Node& { return x.string(); });
   }
   CLASSIC_BINARY(Lshift) CLASSIC_BINARY(Lshift_assign)
   PLAIN_BINARY_ALIAS(Member_init, member, initializer)
   CLASSIC_BINARY(Modulo) CLASSIC_BINARY(Modulo_assign) CLASSIC_BINARY(Mul) CLASSIC_BINARY(Mul_assign)
   PLAIN_BINARY_ALIAS(Narrow, expr, derived)
   CLASSIC_BINARY(Not_equal) CLASSIC_BINARY(Or)
   PLAIN_BINARY_ALIAS(Pretend, expr, target)
   void visit(const Qualification& x) override
   {
      Ref a = o.node("first", [&]() -> const Node& { return x.first(); });
      int64_t q = o.val("second", [&] { return util::rep(x.second()); });
      o.alias_node("expr", a, [&]() -> const Node& { return x.expr(); });
      if (int64_t(util::rep(x.qualifiers())) != q) o.problem("qualifiers() disagrees with second()");
      type_slot(x);
   }
   CAST_EXPR(Reinterpret_cast)
   CLASSIC_BINARY(Rshift) CLASSIC_BINARY(Rshift_assign)
   CAST_EXPR(Static_cast)
   PLAIN_BINARY_ALIAS(Widen, expr, base)
   CLASSIC_BINARY(Minus) CLASSIC_BINARY(Minus_assign)
   void visit(const Binary_fold& x) override
   {
      binary(x); classic(x);
      o.val("operation", [&] { return int(x.operation()); });
   }
   PLAIN_BINARY_ALIAS(Where, main, attendant)
   void visit(const Static_assert& x) override
   {
      Ref a = o.node("first", [&]() -> const Node& { return x.first(); });
      Ref b = o.opt_node("second", [&] { return x.second(); });
      o.alias_node("condition", a, [&]() -> const Node& { return x.condition(); });
      try { auto m = x.message(); Ref r = m.is_valid() ? nref(m.get()) : nullptr; if (r != b and b != ABSENT) o.problem("message() disagrees with second()"); }
      catch (const std::logic_error&) { }
      type_slot(x);
   }
#undef CLASSIC_BINARY
#undef CLASSIC_BINARY_ALIAS
#undef PLAIN_BINARY_ALIAS
#undef CAST_EXPR

   void visit(const Instantiation& x) override
   {
      o.node("pattern", [&]() -> const Node& { return x.pattern(); });
      o.obj("substitution", [&]() -> const Substitution& { return x.substitution(); });
      o.opt_node("instance", [&] { return x.instance(); });
      type_slot(x);
   }
   void visit(const New& x) override
   {
      Ref a = o.opt_node("first", [&] { return x.first(); });
      Ref b = o.node("second", [&]() -> const Node& { return x.second(); });
      try { auto p = x.placement(); Ref r = p.is_valid() ? nref(p.get()) : nullptr; if (r != a and a != ABSENT) o.problem("placement() disagrees with first()"); }
      catch (const std::logic_error&) { }
      o.alias_node("initializer", b, [&]() -> const Node& { return x.initializer(); });
      o.val("global_requested", [&] { return x.global_requested(); });
      type_slot(x);
      classic(x);
   }
   void visit(const Conditional& x) override
   {
      Ref a = o.node("first", [&]() -> const Node& { return x.first(); });
      Ref b = o.node("second", [&]() -> const Node& { return x.second(); });
      Ref c = o.node("third", [&]() -> const Node& { return x.third(); });
      o.alias_node("condition", a, [&]() -> const Node& { return x.condition(); });
      o.alias_node("then_expr", b, [&]() -> const Node& { return x.then_expr(); });
      o.alias_node("else_expr", c, [&]() -> const Node& { return x.else_expr(); });
      type_slot(x);
      classic(x);
   }
   void visit(const Mapping& x) override
   {
      o.node("parameters", [&]() -> const Node& { return x.parameters(); });
      o.node("result", [&]() -> const Node& { return x.result(); });
      type_slot(x);
   }
   void visit(const Lambda& x) override
   {
      o.node("parameters", [&]() -> const Node& { return x.parameters(); });
      o.node("result", [&]() -> const Node& { return x.result(); });
      type_slot(x);
      o.opt_node("target", [&] { return x.target(); });
      o.opt_node("requirement", [&] { return x.requirement(); });
      o.opt_node("eh_specification", [&] { return x.eh_specification(); });
      o.val("specifiers", [&] { return int64_t(x.specifiers()); });
      o.obj_seq("attributes", [&]() -> const Sequence<Attribute>& { return x.attributes(); });
      o.obj_seq("captures", [&]() -> const Sequence<Capture_specification>& { return x.captures(); });
   }
   void visit(const Requires& x) override
   {
      o.node("parameters", [&]() -> const Node& { return x.parameters(); });
      o.obj_seq("body", [&]() -> const Sequence<cxx_form::Requirement>& { return x.body(); });
      type_slot(x);
   }
   void visit(const Overload& x) override { type_slot(x); }
   void visit(const Scope& x) override
   {
      o.node_seq("elements", [&]() -> const Sequence<Decl>& { return x.elements(); });
      try {
         const auto& e = x.elements();
         if (x.size() != e.size()) o.problem("Scope::size() disagrees with elements().size()");
         size_t i = 0;
         for (auto it = x.begin(); it != x.end() and i <= e.size(); ++it, ++i)
            if (nref(*it) != nref(*e.position(i))) o.problem("Scope iteration disagrees with elements()");
         if (i != e.size()) o.problem("Scope::begin()/end() visit a different number of elements than elements()");
      }
      catch (const std::logic_error&) { }
      type_slot(x);
   }
   void visit(const Parameter_list& x) override
   {
      o.node("region", [&]() -> const Node& { return x.region(); });
      o.val("level", [&] { return int64_t(x.level()); });
      o.node_seq("elements", [&]() -> const Sequence<Parameter>& { return x.elements(); });
      try {
         const auto& e = x.elements();
         if (x.size() != e.size()) o.problem("Parameter_list::size() disagrees with elements().size()");
         size_t i = 0;
         for (auto it = x.begin(); it != x.end() and i <= e.size(); ++it, ++i)
            if (nref(*it) != nref(*e.position(i))) o.problem("Parameter_list iteration disagrees with elements()");
         if (i != e.size()) o.problem("Parameter_list::begin()/end() disagree with elements()");
      }
      catch (const std::logic_error&) { }
      type_slot(x);
   }

   // ---- directives ----------------------------------------------------------------
   void visit(const Specifiers_spread& x) override
   {
      type_slot(x);
      o.val("phases", [&] { return int64_t(x.phases()); });
      o.val("specifiers", [&] { return util::rep(x.specifiers()); });
      o.obj_seq("targets", [&]() -> const Sequence<cxx_form::Proclamator>& { return x.targets(); });
   }
   void visit(const Structured_binding& x) override
   {
      type_slot(x);
      o.val("phases", [&] { return int64_t(x.phases()); });
      o.val("specifiers", [&] { return util::rep(x.specifiers()); });
      o.val("mode", [&] { return int(x.mode()); });
      o.node_seq("names", [&]() -> const Sequence<Identifier>& { return x.names(); });
      o.node("initializer", [&]() -> const Node& { return x.initializer(); });
      o.node_seq("bindings", [&]() -> const Sequence<Decl>& { return x.bindings(); });
   }
   void visit(const Using_declaration& x) override
   {
      type_slot(x);
      o.val("phases", [&] { return int64_t(x.phases()); });
      o.seq("designators", [&]() -> const Sequence<Using_declaration::Designator>& { return x.designators(); },
            [](const Using_declaration::Designator& d, std::vector<Ref>& out) {
               touch(d.path());
               out.push_back(nref(d.path()));
               out.push_back(reinterpret_cast<Ref>(uintptr_t(0x100 + int(d.mode()))));
            });
   }
   void visit(const Using_directive& x) override
   {
      type_slot(x);
      o.val("phases", [&] { return int64_t(x.phases()); });
      o.node("nominated_scope", [&]() -> const Node& { return x.nominated_scope(); });
   }
   void visit(const Phased_evaluation& x) override
   {
      type_slot(x);
      o.val("phases", [&] { return int64_t(x.phases()); });
      o.node("expression", [&]() -> const Node& { return x.expression(); });
   }
   void visit(const Pragma& x) override
   {
      type_slot(x);
      o.val("phases", [&] { return int64_t(x.phases()); });
      o.obj_seq("operand", [&]() -> const Sequence<Token>& { return x.operand(); });
      try { if (&x.incantation() != &x.operand()) o.problem("incantation() is not operand()"); }
      catch (const std::logic_error&) { }
   }

   // ---- statements ----------------------------------------------------------------
   void visit(const Expr_stmt& x) override
   {
      stmt_common(x);
      Ref a = o.node("operand", [&]() -> const Node& { return x.operand(); });
      o.alias_node("expr", a, [&]() -> const Node& { return x.expr(); });
      type_slot(x);
   }
   void visit(const Labeled_stmt& x) override
   {
      stmt_common(x);
      binary(x);
      o.alias_node("label", o.rd.ref_of("first"), [&]() -> const Node& { return x.label(); });
      o.alias_node("stmt", o.rd.ref_of("second"), [&]() -> const Node& { return x.stmt(); });
   }
   void visit(const Block& x) override
   {
      stmt_common(x);
      type_slot(x);
      o.node("region", [&]() -> const Node& { return x.region(); });
      o.node_seq("body", [&]() -> const Sequence<Expr>& { return x.body(); });
      o.node_seq("handlers", [&]() -> const Sequence<Handler>& { return x.handlers(); });
      o.val("try_block", [&] { return x.try_block(); });
      try { if (&x.body() != &x.region().body()) o.problem("body() is not region().body()"); }
      catch (const std::logic_error&) { }
   }
   void visit(const Ctor_body& x) override
   {
      stmt_common(x);
      binary(x);
      o.alias_node("inits", o.rd.ref_of("first"), [&]() -> const Node& { return x.inits(); });
      o.alias_node("block", o.rd.ref_of("second"), [&]() -> const Node& { return x.block(); });
   }
   void visit(const If& x) override
   {
      stmt_common(x);
      Ref a = o.node("first", [&]() -> const Node& { return x.first(); });
      Ref b = o.node("second", [&]() -> const Node& { return x.second(); });
      Ref c = o.opt_node("third", [&] { return x.third(); });
      o.alias_node("condition", a, [&]() -> const Node& { return x.condition(); });
      o.alias_node("consequence", b, [&]() -> const Node& { return x.consequence(); });
      try { auto al = x.alternative(); Ref r = al.is_valid() ? nref(al.get()) : nullptr; if (r != c and c != ABSENT) o.problem("alternative() disagrees with third()"); }
      catch (const std::logic_error&) { }
      type_slot(x);
   }
#define CONTROLLED(K) \
   void visit(const K& x) override \
   { \
      stmt_common(x); \
      binary(x); \
      o.alias_node("condition", o.rd.ref_of("first"), [&]() -> const Node& { return x.condition(); }); \
      o.alias_node("body", o.rd.ref_of("second"), [&]() -> const Node& { return x.body(); }); \
   }
   CONTROLLED(Switch)
   CONTROLLED(While)
   CONTROLLED(Do)
#undef CONTROLLED
   void visit(const For& x) override
   {
      stmt_common(x);
      o.node("initializer", [&]() -> const Node& { return x.initializer(); });
      o.node("condition", [&]() -> const Node& { return x.condition(); });
      o.node("increment", [&]() -> const Node& { return x.increment(); });
      o.node("body", [&]() -> const Node& { return x.body(); });
      type_slot(x);
   }
   void visit(const For_in& x) override
   {
      stmt_common(x);
      o.node("variable", [&]() -> const Node& { return x.variable(); });
      o.node("sequence", [&]() -> const Node& { return x.sequence(); });
      o.node("body", [&]() -> const Node& { return x.body(); });
      type_slot(x);
   }
   void visit(const Break& x) override
   {
      stmt_common(x);
      o.node("from", [&]() -> const Node& { return x.from(); });
      type_slot(x);
   }
   void visit(const Continue& x) override
   {
      stmt_common(x);
      o.node("iteration", [&]() -> const Node& { return x.iteration(); });
      type_slot(x);
   }
   void visit(const Goto& x) override
   {
      stmt_common(x);
      Ref a = o.node("operand", [&]() -> const Node& { return x.operand(); });
      o.alias_node("target", a, [&]() -> const Node& { return x.target(); });
      type_slot(x);
   }
   void visit(const Return& x) override
   {
      stmt_common(x);
      Ref a = o.node("operand", [&]() -> const Node& { return x.operand(); });
      o.alias_node("value", a, [&]() -> const Node& { return x.value(); });
      type_slot(x);
   }
   void visit(const Handler& x) override
   {
      stmt_common(x);
      o.node("exception", [&]() -> const Node& { return x.exception(); });
      o.node("body", [&]() -> const Node& { return x.body(); });
      type_slot(x);
   }

   // ---- declarations --------------------------------------------------------------
   void visit(const Alias& x) override { decl_common(x); }
   void visit(const Field& x) override { decl_common(x); }
   void visit(const EH_parameter& x) override { decl_common(x); }
   void visit(const Base_type& x) override
   {
      decl_common(x);
      o.val("position", [&] { return int64_t(x.position()); });
   }
   void visit(const Enumerator& x) override
   {
      decl_common(x);
      o.val("position", [&] { return int64_t(x.position()); });
   }
   void visit(const Parameter& x) override
   {
      decl_common(x);
      o.val("position", [&] { return int64_t(x.position()); });
      o.val("level", [&] { return int64_t(x.level()); });
      try { auto a = x.default_value(); auto b = x.initializer(); if (a.is_valid() != b.is_valid() or (a.is_valid() and nref(a.get()) != nref(b.get()))) o.problem("default_value() disagrees with initializer()"); }
      catch (const std::logic_error&) { }
   }
   void visit(const Bitfield& x) override
   {
      decl_common(x);
      o.node("precision", [&]() -> const Node& { return x.precision(); });
   }
   void visit(const Fundecl& x) override
   {
      decl_common(x);
      o.opt_node("mapping", [&] { return x.mapping(); });
      o.node("parameters", [&]() -> const Node& { return x.parameters(); });
      o.opt_node("definition", [&] { return x.definition(); });
   }
   void visit(const Var& x) override
   {
      decl_common(x);
      o.opt_node("definition", [&] { return x.definition(); });
   }
   void visit(const Typedecl& x) override
   {
      decl_common(x);
      o.opt_node("definition", [&] { return x.definition(); });
   }
   void visit(const Template& x) override
   {
      decl_common(x);
      o.node("primary_template", [&]() -> const Node& { return x.primary_template(); });
      o.node_seq("specializations", [&]() -> const Sequence<Decl>& { return x.specializations(); });
      Ref m = o.node("mapping", [&]() -> const Node& { return x.mapping(); });
      o.opt_node("definition", [&] { return x.definition(); });
      if (m != ABSENT) {
         try {
            if (nref(x.parameters()) != nref(x.mapping().parameters())) o.problem("Template::parameters() is not mapping().parameters()");
         }
         catch (const std::logic_error&) { }
         try {
            if (nref(x.result()) != nref(x.mapping().result())) o.problem("Template::result() is not mapping().result()");
         }
         catch (const std::logic_error&) { }
      }
   }
};

template<class T> Reading run_node(const T& n, const ObsOptions& opt)
{
   Obs o(opt);
   o.rd.cat = int(n.category);
   V v(o);
   try { n.accept(v); }
   catch (const std::logic_error& e) { o.problem(std::string("accept/visit threw logic_error outside a guarded accessor: ") + e.what()); }
   return std::move(o.rd);
}

} // anon

int64_t bytes_hash(const void* data, size_t n)
{
   auto p = static_cast<const unsigned char*>(data);
   uint64_t h = 1469598103934665603ull;
   for (size_t i = 0; i < n; ++i) { h ^= p[i]; h *= 1099511628211ull; }
   return int64_t(h >> 1);
}

const char* category_name(int cat)
{
   if (cat >= 0 and cat < int(ipr::Category_code::last_code_cat)) return cat_names[cat];
   return "non-node";
}

Reading observe(const ipr::Node& n, const ObsOptions& opt) { return run_node(n, opt); }

// ---- non-node sorts ------------------------------------------------------------------
Reading observe(const ipr::Token& t, const ObsOptions& opt)
{
   Obs o(opt);
   o.rd.cat = PS_Token;
   o.node("spelling", [&]() -> const Node& { return t.lexeme().spelling(); });
   o.val("locus.line", [&] { return util::rep(t.lexeme().locus().line); });
   o.val("locus.column", [&] { return util::rep(t.lexeme().locus().column); });
   o.val("locus.file", [&] { return util::rep(t.lexeme().locus().file); });
   o.val("value", [&] { return int64_t(t.value()); });
   o.val("category", [&] { return int64_t(t.category()); });
   return std::move(o.rd);
}

Reading observe(const ipr::Attribute& a, const ObsOptions& opt)
{
   struct AV : ipr::Attribute::Visitor {
      Obs& o;
      explicit AV(Obs& x) : o(x) { }
      void visit(const BasicAttribute& x) override
      {
         o.rd.cat = PS_BasicAttribute;
         Ref r = o.obj("operand", [&]() -> const Token& { return x.operand(); });
         try { if (&x.token() != r and r != ABSENT) o.problem("token() is not operand()"); } catch (const std::logic_error&) { }
      }
      void visit(const ScopedAttribute& x) override
      {
         o.rd.cat = PS_ScopedAttribute;
         Ref a = o.obj("first", [&]() -> const Token& { return x.first(); });
         Ref b = o.obj("second", [&]() -> const Token& { return x.second(); });
         try { if (&x.scope() != a or &x.member() != b) o.problem("scope()/member() disagree with first()/second()"); } catch (const std::logic_error&) { }
      }
      void visit(const LabeledAttribute& x) override
      {
         o.rd.cat = PS_LabeledAttribute;
         Ref a = o.obj("first", [&]() -> const Token& { return x.first(); });
         Ref b = o.obj("second", [&]() -> const Attribute& { return x.second(); });
         try { if (&x.label() != a or &x.attribute() != b) o.problem("label()/attribute() disagree with first()/second()"); } catch (const std::logic_error&) { }
      }
      void visit(const CalledAttribute& x) override
      {
         o.rd.cat = PS_CalledAttribute;
         Ref a = o.obj("first", [&]() -> const Attribute& { return x.first(); });
         o.obj_seq("second", [&]() -> const Sequence<Attribute>& { return x.second(); });
         try { if (&x.function() != a or &x.arguments() != &x.second()) o.problem("function()/arguments() disagree with first()/second()"); } catch (const std::logic_error&) { }
      }
      void visit(const ExpandedAttribute& x) override
      {
         o.rd.cat = PS_ExpandedAttribute;
         Ref a = o.obj("first", [&]() -> const Token& { return x.first(); });
         Ref b = o.obj("second", [&]() -> const Attribute& { return x.second(); });
         try { if (&x.expander() != a or &x.operand() != b) o.problem("expander()/operand() disagree with first()/second()"); } catch (const std::logic_error&) { }
      }
      void visit(const FactoredAttribute& x) override
      {
         o.rd.cat = PS_FactoredAttribute;
         Ref a = o.obj("first", [&]() -> const Token& { return x.first(); });
         o.obj_seq("second", [&]() -> const Sequence<Attribute>& { return x.second(); });
         try { if (&x.factor() != a or &x.terms() != &x.second()) o.problem("factor()/terms() disagree with first()/second()"); } catch (const std::logic_error&) { }
      }
      void visit(const ElaboratedAttribute& x) override
      {
         o.rd.cat = PS_ElaboratedAttribute;
         Ref a = o.node("operand", [&]() -> const Node& { return x.operand(); });
         o.alias_node("elaboration", a, [&]() -> const Node& { return x.elaboration(); });
      }
   };
   Obs o(opt);
   AV v(o);
   a.accept(v);
   return std::move(o.rd);
}

Reading observe(const ipr::Capture_specification& c, const ObsOptions& opt)
{
   struct CV : ipr::Capture_specification::Visitor {
      Obs& o;
      explicit CV(Obs& x) : o(x) { }
      void visit(const Capture_specification::Default& x) override { o.rd.cat = PS_CapDefault; o.val("mode", [&] { return int(x.mode()); }); }
      void visit(const Capture_specification::Implicit_object& x) override { o.rd.cat = PS_CapImplicit; o.val("how", [&] { return int(x.how()); }); }
      void visit(const Capture_specification::Enclosing_local& x) override
      {
         o.rd.cat = PS_CapEnclosing;
         o.val("mode", [&] { return int(x.mode()); });
         o.node("declaration", [&]() -> const Node& { return x.declaration(); });
         o.node("name", [&]() -> const Node& { return x.name(); });
      }
      void visit(const Capture_specification::Binding& x) override
      {
         o.rd.cat = PS_CapBinding;
         o.val("mode", [&] { return int(x.mode()); });
         o.node("name", [&]() -> const Node& { return x.name(); });
         o.node("initializer", [&]() -> const Node& { return x.initializer(); });
      }
      void visit(const Capture_specification::Expansion& x) override
      {
         o.rd.cat = PS_CapExpansion;
         o.obj("what", [&]() -> const Capture_specification& { return x.what(); });
      }
   };
   Obs o(opt);
   CV v(o);
   c.accept(v);
   return std::move(o.rd);
}

Reading observe(const ipr::cxx_form::Constraint& c, const ObsOptions& opt)
{
   struct CV : cxx_form::Constraint_visitor {
      Obs& o;
      explicit CV(Obs& x) : o(x) { }
      void visit(const cxx_form::Constraint::Monadic& x) override
      {
         o.rd.cat = PS_Monadic;
         o.opt_node("scope", [&] { return x.scope(); });
         o.node("concept_name", [&]() -> const Node& { return x.concept_name(); });
      }
      void visit(const cxx_form::Constraint::Polyadic& x) override
      {
         o.rd.cat = PS_Polyadic;
         o.opt_node("scope", [&] { return x.scope(); });
         o.node("concept_name", [&]() -> const Node& { return x.concept_name(); });
         o.node_seq("trailing_arguments", [&]() -> const Sequence<Expr>& { return x.trailing_arguments(); });
      }
   };
   Obs o(opt);
   CV v(o);
   c.accept(v);
   return std::move(o.rd);
}

Reading observe(const ipr::cxx_form::Requirement& r, const ObsOptions& opt)
{
   struct RV : cxx_form::Requirement_visitor {
      Obs& o;
      explicit RV(Obs& x) : o(x) { }
      void visit(const cxx_form::Requirement::Simple& x) override { o.rd.cat = PS_ReqSimple; o.node("expr", [&]() -> const Node& { return x.expr(); }); }
      void visit(const cxx_form::Requirement::Type& x) override
      {
         o.rd.cat = PS_ReqType;
         o.opt_node("scope", [&] { return x.scope(); });
         o.node("type_name", [&]() -> const Node& { return x.type_name(); });
      }
      void visit(const cxx_form::Requirement::Compound& x) override
      {
         o.rd.cat = PS_ReqCompound;
         o.node("expr", [&]() -> const Node& { return x.expr(); });
         o.opt_obj("constraint", [&] { return x.constraint(); });
         o.val("nothrow", [&] { return x.nothrow(); });
      }
      void visit(const cxx_form::Requirement::Nested& x) override { o.rd.cat = PS_ReqNested; o.node("condition", [&]() -> const Node& { return x.condition(); }); }
   };
   Obs o(opt);
   RV v(o);
   r.accept(v);
   return std::move(o.rd);
}

Reading observe(const ipr::cxx_form::Indirector& i, const ObsOptions& opt)
{
   struct IV : cxx_form::Indirector_visitor {
      Obs& o;
      explicit IV(Obs& x) : o(x) { }
      void visit(const cxx_form::Indirector::Pointer& x) override
      {
         o.rd.cat = PS_IndPointer;
         o.val("qualifiers", [&] { return util::rep(x.qualifiers()); });
         o.obj_seq("attributes", [&]() -> const Sequence<Attribute>& { return x.attributes(); });
      }
      void visit(const cxx_form::Indirector::Reference& x) override
      {
         o.rd.cat = PS_IndReference;
         o.val("flavor", [&] { return int(x.flavor()); });
         o.obj_seq("attributes", [&]() -> const Sequence<Attribute>& { return x.attributes(); });
      }
      void visit(const cxx_form::Indirector::Member& x) override
      {
         o.rd.cat = PS_IndMember;
         o.node("scope", [&]() -> const Node& { return x.scope(); });
         o.val("qualifiers", [&] { return util::rep(x.qualifiers()); });
         o.obj_seq("attributes", [&]() -> const Sequence<Attribute>& { return x.attributes(); });
      }
   };
   Obs o(opt);
   IV v(o);
   i.accept(v);
   return std::move(o.rd);
}

Reading observe(const ipr::cxx_form::Species_declarator& s, const ObsOptions& opt)
{
   struct SV : cxx_form::Species_visitor {
      Obs& o;
      explicit SV(Obs& x) : o(x) { }
      void visit(const cxx_form::Species_declarator::Unqualified_id& x) override
      {
         o.rd.cat = PS_SpUnqualified;
         o.opt_node("name", [&] { return x.name(); });
         o.obj_seq("attributes", [&]() -> const Sequence<Attribute>& { return x.attributes(); });
         o.obj_seq("suffix", [&]() -> const Sequence<cxx_form::Morphism>& { return x.suffix(); });
      }
      void visit(const cxx_form::Species_declarator::Pack& x) override
      {
         o.rd.cat = PS_SpPack;
         o.opt_node("name", [&] { return x.name(); });
         o.obj_seq("attributes", [&]() -> const Sequence<Attribute>& { return x.attributes(); });
         o.obj_seq("suffix", [&]() -> const Sequence<cxx_form::Morphism>& { return x.suffix(); });
      }
      void visit(const cxx_form::Species_declarator::Qualified_id& x) override
      {
         o.rd.cat = PS_SpQualified;
         o.node("scope", [&]() -> const Node& { return x.scope(); });
         o.node("member", [&]() -> const Node& { return x.member(); });
         o.obj_seq("attributes", [&]() -> const Sequence<Attribute>& { return x.attributes(); });
         o.obj_seq("suffix", [&]() -> const Sequence<cxx_form::Morphism>& { return x.suffix(); });
      }
      void visit(const cxx_form::Species_declarator::Parenthesized& x) override
      {
         o.rd.cat = PS_SpParen;
         o.obj("term", [&]() -> const cxx_form::Declarator& { return x.term(); });
         o.obj_seq("suffix", [&]() -> const Sequence<cxx_form::Morphism>& { return x.suffix(); });
      }
   };
   Obs o(opt);
   SV v(o);
   s.accept(v);
   return std::move(o.rd);
}

Reading observe(const ipr::cxx_form::Morphism& m, const ObsOptions& opt)
{
   struct MV : cxx_form::Morphism_visitor {
      Obs& o;
      explicit MV(Obs& x) : o(x) { }
      void visit(const cxx_form::Morphism::Function& x) override
      {
         o.rd.cat = PS_MorFunction;
         o.node("parameters", [&]() -> const Node& { return x.parameters(); });
         o.val("qualifiers", [&] { return util::rep(x.qualifiers()); });
         o.val("binding_mode", [&] { return int(x.binding_mode()); });
         o.opt_node("throws", [&] { return x.throws(); });
         o.obj_seq("attributes", [&]() -> const Sequence<Attribute>& { return x.attributes(); });
      }
      void visit(const cxx_form::Morphism::Array& x) override
      {
         o.rd.cat = PS_MorArray;
         o.opt_node("bound", [&] { return x.bound(); });
         o.obj_seq("attributes", [&]() -> const Sequence<Attribute>& { return x.attributes(); });
      }
   };
   Obs o(opt);
   MV v(o);
   m.accept(v);
   return std::move(o.rd);
}

Reading observe(const ipr::cxx_form::Declarator& d, const ObsOptions& opt)
{
   struct DV : cxx_form::Declarator_visitor {
      Obs& o;
      explicit DV(Obs& x) : o(x) { }
      void visit(const cxx_form::Declarator::Term& x) override
      {
         o.rd.cat = PS_DeclTerm;
         o.obj("species", [&]() -> const cxx_form::Species_declarator& { return x.species(); });
         o.obj_seq("indirectors", [&]() -> const Sequence<cxx_form::Indirector>& { return x.indirectors(); });
      }
      void visit(const cxx_form::Declarator::Targeted& x) override
      {
         o.rd.cat = PS_DeclTargeted;
         o.obj("species", [&]() -> const cxx_form::Species_declarator& { return x.species(); });
         o.node("target", [&]() -> const Node& { return x.target(); });
      }
   };
   Obs o(opt);
   DV v(o);
   d.accept(v);
   return std::move(o.rd);
}

Reading observe(const ipr::cxx_form::Initialization_provision& p, const ObsOptions& opt)
{
   struct PV : cxx_form::Provision_visitor {
      Obs& o;
      explicit PV(Obs& x) : o(x) { }
      void visit(const cxx_form::Classic_provision& x) override
      {
         o.rd.cat = PS_ProvClassic;
         o.obj("initializer", [&]() -> const cxx_form::Elemental_initializer& { return x.initializer(); });
      }
      void visit(const cxx_form::Parenthesized_provision& x) override
      {
         o.rd.cat = PS_ProvParen;
         o.node("initializer", [&]() -> const Node& { return x.initializer(); });
      }
      void visit(const cxx_form::Braced_provision& x) override
      {
         o.rd.cat = PS_ProvBraced;
         o.obj_seq("elements", [&]() -> const Sequence<cxx_form::Elemental_initializer>& { return x.elements(); });
      }
      void visit(const cxx_form::Designated_list_provision& x) override
      {
         o.rd.cat = PS_ProvDesignated;
         o.seq("elements", [&]() -> const Sequence<cxx_form::Earmarked_initializer>& { return x.elements(); },
               [](const cxx_form::Earmarked_initializer& e, std::vector<Ref>& out) { out.push_back(&e.subobject()); out.push_back(&e.initializer()); });
      }
   };
   Obs o(opt);
   PV v(o);
   p.accept(v);
   return std::move(o.rd);
}

Reading observe(const ipr::cxx_form::Subobject_designator& d, const ObsOptions& opt)
{
   struct DV : cxx_form::Designator_visitor {
      Obs& o;
      explicit DV(Obs& x) : o(x) { }
      void visit(const cxx_form::Field_designator& x) override { o.rd.cat = PS_DesField; o.node("name", [&]() -> const Node& { return x.name(); }); }
      void visit(const cxx_form::Slot_designator& x) override { o.rd.cat = PS_DesSlot; o.node("index", [&]() -> const Node& { return x.index(); }); }
   };
   Obs o(opt);
   DV v(o);
   d.accept(v);
   return std::move(o.rd);
}

Reading observe(const ipr::Translation_unit& u, const ObsOptions& opt)
{
   struct UV : ipr::Translation_unit::Visitor {
      Obs& o;
      explicit UV(Obs& x) : o(x) { }
      void common(const Translation_unit& x)
      {
         o.node("global_namespace", [&]() -> const Node& { return x.global_namespace(); });
         o.obj_seq("imported_modules", [&]() -> const Sequence<Module>& { return x.imported_modules(); });
      }
      void visit(const Translation_unit& x) override { o.rd.cat = PS_Unit; common(x); }
      void visit(const Module_unit& x) override
      {
         o.rd.cat = PS_ModuleUnit;
         common(x);
         o.obj("parent_module", [&]() -> const Module& { return x.parent_module(); });
         o.node_seq("purview", [&]() -> const Sequence<Decl>& { return x.purview(); });
      }
      void visit(const Interface_unit& x) override
      {
         o.rd.cat = PS_InterfaceUnit;
         common(x);
         o.obj("parent_module", [&]() -> const Module& { return x.parent_module(); });
         o.node_seq("purview", [&]() -> const Sequence<Decl>& { return x.purview(); });
         o.obj_seq("exported_modules", [&]() -> const Sequence<Module>& { return x.exported_modules(); });
         o.node_seq("exported_declarations", [&]() -> const Sequence<Decl>& { return x.exported_declarations(); });
      }
   };
   Obs o(opt);
   UV v(o);
   u.accept(v);
   return std::move(o.rd);
}

Reading observe(const ipr::Module& m, const ObsOptions& opt)
{
   Obs o(opt);
   o.rd.cat = PS_Module;
   o.node_seq("name.stems", [&]() -> const Sequence<Identifier>& { return m.name().stems(); });
   o.obj("interface_unit", [&]() -> const Translation_unit& { return m.interface_unit(); });
   o.obj_seq("implementation_units", [&]() -> const Sequence<Module_unit>& { return m.implementation_units(); });
   return std::move(o.rd);
}

Reading observe(const ipr::Transfer& t, const ObsOptions& opt)
{
   Obs o(opt);
   o.rd.cat = PS_Transfer;
   Ref a = o.node("first", [&]() -> const Node& { return t.first().language().what(); });
   Ref b = o.node("second", [&]() -> const Node& { return t.second().name().what(); });
   o.alias_node("linkage", a, [&]() -> const Node& { return t.linkage().language().what(); });
   o.alias_node("convention", b, [&]() -> const Node& { return t.convention().name().what(); });
   return std::move(o.rd);
}

Reading observe(const ipr::Linkage& l, const ObsOptions& opt)
{
   Obs o(opt);
   o.rd.cat = PS_Linkage;
   Ref a = o.node("language", [&]() -> const Node& { return l.language().what(); });
   o.alias_node("language.operand", a, [&]() -> const Node& { return l.language().operand(); });
   return std::move(o.rd);
}

Reading observe(const ipr::Calling_convention& c, const ObsOptions& opt)
{
   Obs o(opt);
   o.rd.cat = PS_Convention;
   Ref a = o.node("name", [&]() -> const Node& { return c.name().what(); });
   o.alias_node("name.operand", a, [&]() -> const Node& { return c.name().operand(); });
   return std::move(o.rd);
}

}
